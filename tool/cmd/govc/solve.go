package main

// Discharging obligations: a portfolio of z3 5.1 (z3-new), z3 4.8 and cvc5,
// 16 queries in parallel.

import (
	"bytes"
	"context"
	"fmt"
	"os"
	"os/exec"
	"path/filepath"
	"strings"
	"sync"
	"time"
)

type solverSpec struct {

	name string
	argv func(file string, timeout int) []string
	prep func(script string) string
	abstract bool // runs the query with the float/integer conversions uninterpreted: only `unsat` is an answer
}

func cvc5Prep(s string) string {
	// cvc5 wants produce-models before set-logic (it is), and does not know z3's (_ is ctor) sugar? it does. Keep as is.
	return s
}

var solvers = []solverSpec{
	{"z3-5.1", func(f string, t int) []string { return []string{"z3-new", fmt.Sprintf("-T:%d", t), f} }, nil, false},
	{"z3-4.8", func(f string, t int) []string { return []string{"z3", fmt.Sprintf("-T:%d", t), f} }, nil, false},
	{"cvc5", func(f string, t int) []string {
		return []string{"cvc5", "--incremental", fmt.Sprintf("--tlimit=%d", t*1000), "--fp-exp", f}
	}, cvc5Prep, false},
	{"cvc5-lazyfp", func(f string, t int) []string {
		return []string{"cvc5", "--incremental", fmt.Sprintf("--tlimit=%d", t*1000), "--fp-exp", "--fp-lazy-wb", f}
	}, cvc5Prep, false},
}

var workDir string
var procSem = make(chan struct{}, 14)

func ensureWorkDir() string {
	if workDir == "" {
		d, err := os.MkdirTemp("", "govc-")
		if err != nil {
			panic(err)
		}
		workDir = d
	}
	return workDir
}

func runSolver(sp solverSpec, script string, timeout int, tag string) (result, output string, secs float64) {
	return runSolverCtx(context.Background(), sp, script, timeout, tag)
}

func runSolverCtx(parent context.Context, sp solverSpec, script string, timeout int, tag string) (result, output string, secs float64) {
	dir := ensureWorkDir()
	f := filepath.Join(dir, fmt.Sprintf("%s-%s.smt2", tag, sp.name))
	if sp.prep != nil {
		script = sp.prep(script)
	}
	if err := os.WriteFile(f, []byte(script), 0o644); err != nil {
		return "error", err.Error(), 0
	}
	defer os.Remove(f)
	ctx, cancel := context.WithTimeout(parent, time.Duration(timeout+2)*time.Second)
	defer cancel()
	argv := sp.argv(f, timeout)
	cmd := exec.CommandContext(ctx, argv[0], argv[1:]...)
	var out bytes.Buffer
	cmd.Stdout = &out
	cmd.Stderr = &out
	t0 := time.Now()
	cmd.Run()
	secs = time.Since(t0).Seconds()
	text := out.String()
	first := strings.TrimSpace(strings.SplitN(text, "\n", 2)[0])
	switch first {
	case "sat", "unsat", "unknown":
		result = first
	case "timeout":
		result = "timeout"
	default:
		if ctx.Err() != nil || strings.Contains(text, "timeout") || strings.Contains(text, "interrupted") {
			result = "timeout"
		} else {
			result = "error"
		}
	}
	return result, text, secs
}

var solveCounter int
var solveMu sync.Mutex

// solveOne: quick mode stops at the first conclusive answer; thorough runs every solver.
func solveOne(o *Obligation, timeout int, thorough bool) {
	if o.Static != "" {
		if o.Static == "holds" {
			o.Result = "holds"
		} else {
			o.Result = "failed"
		}
		o.Solver = "static"
		return
	}
	if o.Script == "" {
		o.Result = "failed"
		o.Solver = "static"
		return
	}
	if o.shortTimeout > 0 && o.shortTimeout < timeout {
		timeout = o.shortTimeout
	}
	solveMu.Lock()
	solveCounter++
	tag := fmt.Sprintf("q%d", solveCounter)
	solveMu.Unlock()
	o.AllRes = map[string]string{}
	if !thorough {
		// race the three solvers; the first conclusive answer wins and the others are stopped
		type ans struct {
			sp   solverSpec
			r    string
			out  string
			secs float64
		}
		o.Result, o.Solver = "unknown", "none"
		// stage 1: z3 5.1 and cvc5 with lazy float blasting; stage 2: z3 4.8 and plain cvc5
		stages := [][]solverSpec{{solvers[0], solvers[3]}, {solvers[1], solvers[2]}}
		if strings.Contains(o.Script, "(define-fun cv!") {
			ab := solvers[0]
			ab.abstract = true
			ab.name = solvers[0].name + "+uf-conversions"
			basePrep := ab.prep
			ab.prep = func(sc string) string {
				if basePrep != nil {
					sc = basePrep(sc)
				}
				return abstractConversions(sc)
			}
			stages[0] = append(stages[0], ab)
		}
		for _, stage := range stages {
			ctx, cancel := context.WithCancel(context.Background())
			ch := make(chan ans, len(stage))
			for _, sp := range stage {
				go func(sp solverSpec) {
					procSem <- struct{}{}
					r, out, secs := runSolverCtx(ctx, sp, o.Script, timeout, tag)
					<-procSem
					ch <- ans{sp, r, out, secs}
				}(sp)
			}
			done := false
			for range stage {
				a := <-ch
				if done {
					continue
				}
				if a.sp.abstract && a.r != "unsat" {
					a.r = "unknown" // a model of the abstraction is not a model of the query
				}
				o.AllRes[a.sp.name] = a.r
				if a.secs > o.Secs {
					o.Secs = a.secs
				}
				if a.r == "sat" || a.r == "unsat" {
					o.Result, o.Solver, o.Secs = a.r, a.sp.name, a.secs
					if a.r == "sat" {
						o.Model = modelOf(a.out)
					}
					cancel()
					done = true
				}
				if a.r == "error" && o.Model == "" {
					o.Model = a.out
				}
			}
			cancel()
			if done {
				return
			}
		}
		return
	}
	// thorough: every solver works on every obligation and any `sat` wins (a disagreement is an alarm); once two
	// independent solvers have answered `unsat` the remaining ones are stopped - waiting out their time limit adds nothing
	var wg sync.WaitGroup
	var mu sync.Mutex
	outs := map[string]string{}
	ctx, cancel := context.WithCancel(context.Background())
	defer cancel()
	nUnsat := 0
	for _, sp := range solvers {
		wg.Add(1)
		go func(sp solverSpec) {
			defer wg.Done()
			r, out, secs := runSolverCtx(ctx, sp, o.Script, timeout, tag)
			mu.Lock()
			if ctx.Err() != nil && r != "sat" && r != "unsat" {
				r = "stopped"
			}
			o.AllRes[sp.name] = r
			outs[sp.name] = out
			if secs > o.Secs && r != "stopped" {
				o.Secs = secs
			}
			if r == "unsat" {
				nUnsat++
				if nUnsat >= 2 {
					cancel()
				}
			}
			mu.Unlock()
		}(sp)
	}
	wg.Wait()
	o.Result = "unknown"
	o.Solver = "none"
	var unsats []string
	for _, sp := range solvers {
		switch o.AllRes[sp.name] {
		case "sat":
			o.Result = "sat"
			o.Solver = sp.name
			o.Model = modelOf(outs[sp.name])
		case "unsat":
			unsats = append(unsats, sp.name)
		}
	}
	if o.Result != "sat" && len(unsats) > 0 {
		o.Result = "unsat"
		o.Solver = strings.Join(unsats, "+")
	}
	if o.Result == "unknown" {
		for _, sp := range solvers {
			if o.AllRes[sp.name] == "error" {
				o.Model = outs[sp.name]
			}
		}
	}
}

func modelOf(out string) string {
	parts := strings.SplitN(out, "\n", 2)
	if len(parts) < 2 {
		return ""
	}
	return strings.TrimSpace(parts[1])
}

func solveAll(obs []*Obligation, timeout int, thorough bool) {
	sem := make(chan struct{}, 10)
	if thorough {
		sem = make(chan struct{}, 6)
	}
	var wg sync.WaitGroup
	for _, o := range obs {
		if o.Result != "" && o.Solver != "" {
			continue
		}
		wg.Add(1)
		sem <- struct{}{}
		go func(o *Obligation) {
			defer wg.Done()
			defer func() { <-sem }()
			solveOne(o, timeout, thorough)
		}(o)
	}
	wg.Wait()
	// an obligation no solver decided in time is tried once more, alone and with three times the time, before it is
	// reported: under load (other checks running beside this one) a query that needs 15 s can miss a 60 s limit, and an
	// undecided obligation on the unchanged tree would be a false alarm. A `sat` is never retried.
	// The retry is for the odd query that load pushed over the limit, not for a tree on which the check fails anyway or
	// on which a change has left many obligations undecidable: nothing is retried when an obligation has already failed
	// for good, or when more than four are undecided (at most 4 x 3 x the limit is spent here).
	undecided, failedForGood := 0, false
	for _, o := range obs {
		if o.ExpectSat || o.shortTimeout > 0 {
			continue
		}
		switch o.Result {
		case "unknown":
			undecided++
		case "sat", "failed":
			failedForGood = true
		}
	}
	for _, o := range obs {
		if failedForGood || undecided > 4 {
			break
		}
		if o.Script == "" || o.Result != "unknown" || o.ExpectSat || o.shortTimeout > 0 {
			continue
		}
		first := o.Secs
		o.Result, o.Solver = "", ""
		solveOne(o, 3*timeout, thorough)
		o.Secs += first
		o.Retried = true
	}
	if workDir != "" {
		os.RemoveAll(workDir)
		workDir = ""
	}
}

// abstractConversions turns the definitions of the float/integer conversion functions into declarations. Every model
// of the original query is a model of the result (take the real conversions for the functions), so `unsat` carries over.
func abstractConversions(script string) string {
	lines := strings.Split(script, "\n")
	for i, l := range lines {
		if !strings.HasPrefix(l, "(define-fun cv!") {
			continue
		}
		n, _ := readSx(l, 0)
		if n == nil || len(n.list) != 5 {
			continue
		}
		var args []string
		for _, a := range n.list[2].list {
			args = append(args, a.list[1].String())
		}
		lines[i] = fmt.Sprintf("(declare-fun %s (%s) %s)", n.list[1].atom, strings.Join(args, " "), n.list[3].String())
	}
	return strings.Join(lines, "\n")
}
