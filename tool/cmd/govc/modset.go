package main

// Static frame inference: for every function of the verified packages, the
// set of heap components it may write (transitively). Used to havoc exactly
// those components at call sites and loop heads.

import (
	"go/types"
	"sort"
	"strings"

	"golang.org/x/tools/go/ssa"
)

type ModSet struct {
	all      bool // anything at all (unknown code)
	external bool // anything an out-of-package function can reach: every component except unexported fields of the module's own types
	comps    map[string]bool
	prm      map[string]map[int]bool // field component -> indices of the pointer parameters whose object (only) is written
	freshC   map[string]bool         // components written only in objects allocated by the activation itself
}

func newModSet() *ModSet { return &ModSet{comps: map[string]bool{}, prm: map[string]map[int]bool{}} }

func (m *ModSet) addPrm(comp string, i int) bool {
	if m.comps[comp] {
		return false
	}
	if m.prm[comp] == nil {
		m.prm[comp] = map[int]bool{}
	}
	if m.prm[comp][i] {
		return false
	}
	m.prm[comp][i] = true
	return true
}

func (m *ModSet) fresh(comp string) {
	if m.freshC == nil {
		m.freshC = map[string]bool{}
	}
	m.freshC[comp] = true
}

func (m *ModSet) addComp(comp string) bool {
	if m.comps[comp] {
		return false
	}
	m.comps[comp] = true
	delete(m.prm, comp)
	return true
}

// flat: every component written, whatever the root (used for loop heads).
func (m *ModSet) flat() *ModSet {
	o := newModSet()
	o.all, o.external = m.all, m.external
	for k := range m.comps {
		o.comps[k] = true
	}
	for k := range m.prm {
		o.comps[k] = true
	}
	for k := range m.freshC {
		o.comps[k] = true
	}
	return o
}

func (m *ModSet) union(o *ModSet) bool {
	ch := false
	if o.all && !m.all {
		m.all = true
		ch = true
	}
	if o.external && !m.external {
		m.external = true
		ch = true
	}
	for k := range o.comps {
		if m.addComp(k) {
			ch = true
		}
	}
	for k, is := range o.prm {
		for i := range is {
			if m.addPrm(k, i) {
				ch = true
			}
		}
	}
	return ch
}

func (m *ModSet) keys() []string {
	var ks []string
	for k := range m.comps {
		ks = append(ks, k)
	}
	sort.Strings(ks)
	return ks
}

func (m *ModSet) covers(key string) bool {
	if m.all {
		return true
	}
	if m.comps[key] || len(m.prm[key]) > 0 {
		return true
	}
	if m.external && !isPrivateComp(key) {
		return true
	}
	return false
}

// isPrivateComp: field component of an unexported field of a type declared in the module.
func isPrivateComp(key string) bool {
	// assumption A-SCALAR-CELLS: a *bool, *float64 or *string cell handed out by the evaluator (AsType, BinaryExpr) is
	// not written by code outside the module: the engine dereferences such pointers before values reach user functions
	if key == "C|Bool" || key == "C|F64" || key == "C|Str" {
		return true
	}
	if !strings.HasPrefix(key, "F|") {
		return false
	}
	parts := strings.Split(key, "|")
	if len(parts) != 3 {
		return false
	}
	pk := parts[1]
	if strings.HasPrefix(pk, "sqlparser.") {
		// assumption A-AST: code outside the module (user functions, library code) does not modify the nodes of a parsed query
		return true
	}
	if !(strings.HasPrefix(pk, "genql.") || strings.HasPrefix(pk, "compare.") || strings.HasPrefix(pk, "sanitizer.")) {
		return false
	}
	f := parts[2]
	return f != "" && f[0] >= 'a' && f[0] <= 'z'
}

// component keys ------------------------------------------------------------

func (g *Gen) compField(st types.Type, field string) string {
	key := "F|" + structName(st) + "|" + field
	if _, ok := g.compSorts[key]; !ok {
		if s, ok := types.Unalias(st).Underlying().(*types.Struct); ok {
			for i := 0; i < s.NumFields(); i++ {
				if s.Field(i).Name() == field {
					g.compSorts[key] = "(Array Ref " + g.sortOf(s.Field(i).Type()) + ")"
				}
			}
		}
	}
	return key
}
func (g *Gen) compElem(elem types.Type) string { return "E|" + g.sortOf(elem) }
func (g *Gen) compCell(t types.Type) string    { return "C|" + g.sortOf(t) }
func (g *Gen) compMapVal(m *types.Map) string {
	return "M|" + g.sortOf(m.Key()) + "|" + g.sortOf(m.Elem())
}
func (g *Gen) compMapDom(m *types.Map) string {
	return "D|" + g.sortOf(m.Key()) + "|" + g.sortOf(m.Elem())
}

func (g *Gen) compSort(key string) string {
	parts := strings.Split(key, "|")
	switch parts[0] {
	case "F":
		return "(Array Ref " + parts[len(parts)-1] + ")" // filled by caller; see fieldCompSort
	case "E":
		return "(Array Ref (Array (_ BitVec 64) " + parts[1] + "))"
	case "C":
		return "(Array Ref " + parts[1] + ")"
	case "M":
		return "(Array Ref (Array " + parts[1] + " " + parts[2] + "))"
	case "D":
		return "(Array Ref (Array " + parts[1] + " Bool))"
	case "G":
		return "(Array Ref Int)"
	case "B":
		return "(Array Ref Str)"
	}
	return "(Array Ref Ref)"
}

// allFieldComps lists the components holding a struct value of type t stored at an address (recursively through struct-typed fields).
func (g *Gen) allFieldComps(t types.Type, out map[string]bool) {
	st, ok := types.Unalias(t).Underlying().(*types.Struct)
	if !ok {
		return
	}
	for i := 0; i < st.NumFields(); i++ {
		f := st.Field(i)
		if _, isS := types.Unalias(f.Type()).Underlying().(*types.Struct); isS {
			g.allFieldComps(f.Type(), out)
			continue
		}
		out[g.compField(t, f.Name())] = true
	}
}

// external library call models: which components does a known function write?
// nil result means "unknown": treated as external.
func (g *Gen) libModSet(fn *ssa.Function, call *ssa.CallCommon) *ModSet {
	name := fn.String()
	if pure[name] || purePrefix(name) {
		return newModSet()
	}
	switch name {
	case "sort.Slice":
		m := newModSet()
		m.comps["E|Any"] = true
		// plus whatever the less function does; resolved by the caller (dynamic part)
		return m
	case "maps.Copy[map[string]any,map[string]any,string,any]", "maps.Copy":
		m := newModSet()
		m.comps["M|Str|Any"] = true
		m.comps["D|Str|Any"] = true
		return m
	case "(*sync.Mutex).Lock", "(*sync.Mutex).Unlock", "(*sync.RWMutex).Lock", "(*sync.RWMutex).Unlock",
		"(*sync.RWMutex).RLock", "(*sync.RWMutex).RUnlock":
		m := newModSet()
		m.comps["G|held"] = true
		return m
	case "(*sync.WaitGroup).Add", "(*sync.WaitGroup).Done", "(*sync.WaitGroup).Wait":
		m := newModSet()
		m.comps["G|wg"] = true
		return m
	case "(*bytes.Buffer).WriteRune", "(*bytes.Buffer).WriteString", "(*bytes.Buffer).WriteByte", "(*bytes.Buffer).Write":
		m := newModSet()
		m.comps["B|buf"] = true
		return m
	}
	if strings.HasPrefix(name, "maps.Copy[") {
		m := newModSet()
		m.comps["M|Str|Any"] = true
		m.comps["D|Str|Any"] = true
		return m
	}
	return nil
}

var pure = map[string]bool{
	"fmt.Sprintf": true, "fmt.Errorf": true, "fmt.Sprint": true, "errors.New": true,
	"strconv.Atoi": true, "strconv.ParseFloat": true, "strconv.ParseInt": true, "strconv.FormatInt": true,
	"strconv.FormatFloat": true, "strconv.Itoa": true, "strconv.ParseBool": true, "strconv.Quote": true,
	"math.Mod": true, "math.Floor": true, "math.IsNaN": true, "math.Abs": true,
	"regexp.Match": true, "regexp.MustCompile": true, "regexp.MatchString": true,
	"(*regexp.Regexp).FindAllString": true, "(*regexp.Regexp).MatchString": true, "(*regexp.Regexp).FindStringSubmatch": true,
	"(*regexp.Regexp).FindAllStringSubmatch": true, "(*regexp.Regexp).Match": true, "(*regexp.Regexp).FindString": true,
	"(*regexp.Regexp).ReplaceAllString": true,
	"bytes.NewBufferString": true, "(*bytes.Buffer).String": true, "(*bytes.Buffer).Len": true,
	"crypto/sha256.New": true, "crypto/sha256.Sum256": true, "crypto/sha1.New": true, "crypto/md5.New": true, "crypto/sha512.New": true,
	"crypto/sha1.Sum": true, "crypto/md5.Sum": true, "crypto/sha512.Sum512": true,
	"encoding/hex.EncodeToString": true, "encoding/hex.DecodeString": true,
	"(*encoding/base64.Encoding).EncodeToString": true, "(*encoding/base64.Encoding).DecodeString": true,
	"(*encoding/base32.Encoding).EncodeToString": true, "(*encoding/base32.Encoding).DecodeString": true,
	"reflect.TypeOf": true, "reflect.ValueOf": true, "(reflect.Value).Len": true, "(reflect.Value).Index": true,
	"(reflect.Value).Interface": true, "(*reflect.rtype).Kind": true, "(reflect.Value).Kind": true,
	"time.Now": true, "(time.Time).Unix": true, "(time.Time).UnixNano": true, "(time.Time).UnixMilli": true,
	"unicode/utf8.DecodeRuneInString": true, "unicode/utf8.RuneLen": true, "unicode/utf8.RuneCountInString": true,
	"unicode.IsSpace": true, "unicode.IsLetter": true, "unicode.IsDigit": true,
	"(*sync.RWMutex).RLocker": true,
	"encoding/gob.Register": true,
}

func purePrefix(name string) bool {
	for _, p := range []string{"strings.", "(*strings.Builder).", "github.com/vedadiyan/sqlparser/v2.", "(github.com/vedadiyan/sqlparser/v2.",
		"(*github.com/vedadiyan/sqlparser/v2.", "slices.Contains", "(*time.", "(time."} {
		if strings.HasPrefix(name, p) {
			return true
		}
	}
	return false
}

// computeModSets: fixpoint over the verified packages' functions.
func (g *Gen) computeModSets() {
	// address-taken functions by signature (targets of dynamic calls)
	bySig := map[string][]*ssa.Function{}
	for _, name := range g.fnames {
		fn := g.funcs[name]
		for _, b := range fn.Blocks {
			for _, ins := range b.Instrs {
				var ops []*ssa.Value
				ops = ins.Operands(ops)
				for i, op := range ops {
					if op == nil || *op == nil {
						continue
					}
					var target *ssa.Function
					switch v := (*op).(type) {
					case *ssa.Function:
						// skip the callee position of a static call
						if c, ok := ins.(ssa.CallInstruction); ok && i == 0 && c.Common().Value == v {
							continue
						}
						target = v
					case *ssa.MakeClosure:
						_ = v
					}
					if target != nil {
						k := sigKey(target.Signature)
						bySig[k] = append(bySig[k], target)
					}
				}
				if mc, ok := ins.(*ssa.MakeClosure); ok {
					f := mc.Fn.(*ssa.Function)
					k := sigKey(f.Signature)
					bySig[k] = append(bySig[k], f)
				}
			}
		}
	}
	g.dynTargets = bySig
	var all []*ssa.Function
	for _, name := range g.fnames {
		all = append(all, g.funcs[name])
	}
	computeReturnsFresh(all)
	for _, name := range g.fnames {
		g.modsets[g.funcs[name]] = newModSet()
	}
	// a function with a declared frame (verified against it, or trusted) contributes that frame to its callers
	declared := map[*ssa.Function]bool{}
	for _, name := range g.fnames {
		fn := g.funcs[name]
		if k := g.contractFor(name); k != nil && k.HasMods {
			ms := newModSet()
			for _, m := range k.Modifies {
				for _, key := range g.expandModKey(m) {
					if key == "*" {
						ms.all = true
					} else {
						ms.comps[key] = true
					}
				}
			}
			for comp := range k.ModAt {
				for _, key := range g.expandModKey(comp) {
					ms.comps[key] = true
				}
			}
			g.modsets[fn] = ms
			declared[fn] = true
		}
	}
	for changed := true; changed; {
		changed = false
		for _, name := range g.fnames {
			fn := g.funcs[name]
			if declared[fn] {
				continue
			}
			ms := g.modsets[fn]
			for _, b := range fn.Blocks {
				for _, ins := range b.Instrs {
					if g.instrMods(fn, ins, ms) {
						changed = true
					}
				}
			}
		}
	}
}

func sigKey(s *types.Signature) string {
	return types.TypeString(types.NewSignatureType(nil, nil, nil, s.Params(), s.Results(), s.Variadic()), func(p *types.Package) string { return p.Path() })
}

// returnsFresh: functions whose first result is always an object they allocated (or nil).
var returnsFresh = map[*ssa.Function]bool{}

func computeReturnsFresh(fns []*ssa.Function) {
	for _, fn := range fns {
		ok, any := true, false
		for _, b := range fn.Blocks {
			for _, ins := range b.Instrs {
				r, isRet := ins.(*ssa.Return)
				if !isRet || len(r.Results) == 0 {
					continue
				}
				any = true
				switch v := r.Results[0].(type) {
				case *ssa.Alloc:
				case *ssa.Const:
					if v.Value != nil {
						ok = false
					}
				default:
					ok = false
				}
			}
		}
		if ok && any {
			if _, isPtr := fn.Signature.Results().At(0).Type().Underlying().(*types.Pointer); isPtr {
				returnsFresh[fn] = true
			}
		}
	}
}

// rootOf classifies the object a pointer value points to: a parameter's object, an object allocated by this activation, or anything.
const (
	rootAny   = -1
	rootFresh = -2
)

func rootOf(v ssa.Value) int {
	switch x := v.(type) {
	case *ssa.Parameter:
		for i, p := range x.Parent().Params {
			if p == x {
				return i
			}
		}
	case *ssa.Alloc:
		return rootFresh
	case *ssa.ChangeType:
		return rootOf(x.X)
	case *ssa.Call:
		if f := x.Common().StaticCallee(); f != nil && returnsFresh[f] {
			return rootFresh
		}
	case *ssa.Extract:
		if c, ok := x.Tuple.(*ssa.Call); ok && x.Index == 0 {
			if f := c.Common().StaticCallee(); f != nil && returnsFresh[f] {
				return rootFresh
			}
		}
	}
	return rootAny
}

// storeEffects: the effect of a store of a value of type t through addr.
// forLoop: include objects allocated by this activation (they are invisible to callers but change inside a loop).
func (g *Gen) storeEffects(addr ssa.Value, t types.Type, add *ModSet, forLoop bool) {
	switch a := addr.(type) {
	case *ssa.Alloc:
		// an object allocated by this activation is new to every caller
		if !forLoop {
			return
		}
	case *ssa.FieldAddr:
		pt := a.X.Type().Underlying().(*types.Pointer).Elem()
		st := pt.Underlying().(*types.Struct)
		f := st.Field(a.Field)
		keys := map[string]bool{}
		if _, isS := types.Unalias(f.Type()).Underlying().(*types.Struct); isS {
			g.allFieldComps(f.Type(), keys)
			for k := range keys {
				add.addComp(k)
			}
			return
		}
		key := g.compField(pt, f.Name())
		switch r := rootOf(a.X); {
		case r >= 0:
			add.addPrm(key, r)
		case r == rootFresh && !forLoop:
			// a field of an object allocated here: invisible to the caller
		default:
			add.addComp(key)
		}
		return
	case *ssa.IndexAddr:
		var et types.Type
		switch xt := a.X.Type().Underlying().(type) {
		case *types.Slice:
			et = xt.Elem()
		case *types.Pointer:
			et = xt.Elem().Underlying().(*types.Array).Elem()
			if _, ok := a.X.(*ssa.Alloc); ok && !forLoop {
				return
			}
		}
		if et != nil {
			add.addComp(g.compElem(et))
		}
		return
	}
	if _, isS := types.Unalias(t).Underlying().(*types.Struct); isS {
		keys := map[string]bool{}
		g.allFieldComps(t, keys)
		r := rootOf(addr)
		for k := range keys {
			switch {
			case r >= 0:
				add.addPrm(k, r)
			case r == rootFresh && !forLoop:
			default:
				add.addComp(k)
			}
		}
		return
	}
	add.addComp(g.compCell(t))
}

// instrMods adds the components written by one instruction to ms; reports change.
func (g *Gen) instrMods(fn *ssa.Function, ins ssa.Instruction, ms *ModSet) bool {
	return g.instrModsX(fn, ins, ms, false)
}

func (g *Gen) instrModsX(fn *ssa.Function, ins ssa.Instruction, ms *ModSet, forLoop bool) bool {
	add := newModSet()
	switch ins := ins.(type) {
	case *ssa.Store:
		g.storeEffects(ins.Addr, ins.Val.Type(), add, forLoop)
	case *ssa.MapUpdate:
		mt := ins.Map.Type().Underlying().(*types.Map)
		add.comps[g.compMapVal(mt)] = true
		add.comps[g.compMapDom(mt)] = true
	case ssa.CallInstruction:
		g.callMods(ins.Common(), add)
	}
	return ms.union(add)
}

// bindCallee maps a callee's parameter-rooted effects through the actual arguments.
func bindCallee(cm *ModSet, args []ssa.Value, add *ModSet) {
	if cm.all {
		add.all = true
	}
	if cm.external {
		add.external = true
	}
	for k := range cm.comps {
		add.addComp(k)
	}
	for k, is := range cm.prm {
		for i := range is {
			if i >= len(args) {
				add.addComp(k)
				continue
			}
			switch r := rootOf(args[i]); {
			case r >= 0:
				add.addPrm(k, r)
			case r == rootFresh:
				// the callee writes an object allocated by the caller's activation: visible to the caller's loops only; handled by flat()
				add.fresh(k)
			default:
				add.addComp(k)
			}
		}
	}
}

func (g *Gen) callMods(cc *ssa.CallCommon, add *ModSet) {
	if cc.IsInvoke() {
		// interface method call: error.Error(), sqlparser node methods (String, Lowered, ...), hash.Hash methods
		recv := cc.Value.Type().String()
		if strings.Contains(recv, "sqlparser") || cc.Method.Name() == "Error" || strings.HasPrefix(recv, "hash.") || strings.HasPrefix(recv, "io.") {
			return
		}
		add.external = true
		return
	}
	switch v := cc.Value.(type) {
	case *ssa.Builtin:
		switch v.Name() {
		case "append":
			st := cc.Args[0].Type().Underlying().(*types.Slice)
			add.comps[g.compElem(st.Elem())] = true
		case "copy":
			if st, ok := cc.Args[0].Type().Underlying().(*types.Slice); ok {
				add.comps[g.compElem(st.Elem())] = true
			}
		case "delete":
			mt := cc.Args[0].Type().Underlying().(*types.Map)
			add.comps[g.compMapDom(mt)] = true
		case "clear":
			add.external = true
		}
		return
	case *ssa.Function:
		if ms, ok := g.modsets[v]; ok {
			bindCallee(ms, cc.Args, add)
			return
		}
		if lm := g.libModSet(v, cc); lm != nil {
			add.union(lm)
			if v.String() == "sort.Slice" && len(cc.Args) == 2 {
				g.dynMods(cc.Args[1], add)
			}
			return
		}
		g.abstracted["unmodelled library call "+v.String()]++
		add.external = true
		return
	case *ssa.MakeClosure:
		if ms, ok := g.modsets[v.Fn.(*ssa.Function)]; ok {
			bindCallee(ms, cc.Args, add)
			return
		}
	}
	g.dynMods(cc.Value, add)
}

// dynTargetsOf: the module functions a call through this function value may reach.
func (g *Gen) dynTargetsOf(v ssa.Value) []*ssa.Function {
	if mc, ok := v.(*ssa.MakeClosure); ok {
		return []*ssa.Function{mc.Fn.(*ssa.Function)}
	}
	sig, ok := v.Type().Underlying().(*types.Signature)
	if !ok {
		return nil
	}
	return g.dynTargets[sigKey(sig)]
}

// dynMods: a call through a function value.
func (g *Gen) dynMods(v ssa.Value, add *ModSet) {
	if mc, ok := v.(*ssa.MakeClosure); ok {
		if ms, ok := g.modsets[mc.Fn.(*ssa.Function)]; ok {
			add.union(ms.flat())
			return
		}
	}
	sig, ok := v.Type().Underlying().(*types.Signature)
	if !ok {
		add.external = true
		return
	}
	for _, t := range g.dynTargets[sigKey(sig)] {
		if ms, ok := g.modsets[t]; ok {
			add.union(ms.flat())
		}
	}
	// and any function supplied from outside the module
	add.external = true
}

// subtreeLocks: fn or something it may call locks a mutex.
func (g *Gen) subtreeLocks(fn *ssa.Function) bool {
	if g.locksMemo == nil {
		g.locksMemo = map[*ssa.Function]bool{}
		// fixpoint
		for changed := true; changed; {
			changed = false
			for _, name := range g.fnames {
				f := g.funcs[name]
				if g.locksMemo[f] {
					continue
				}
				for _, b := range f.Blocks {
					for _, ins := range b.Instrs {
						c, ok := ins.(ssa.CallInstruction)
						if !ok {
							continue
						}
						cc := c.Common()
						if t := cc.StaticCallee(); t != nil {
							n := t.String()
							if strings.HasSuffix(n, ").Lock") || strings.HasSuffix(n, ").RLock") || g.locksMemo[t] {
								g.locksMemo[f] = true
							}
							continue
						}
						if cc.IsInvoke() {
							continue
						}
						if _, isB := cc.Value.(*ssa.Builtin); isB {
							continue
						}
						// a function value: user code may call back into the API, which locks
						g.locksMemo[f] = true
					}
				}
				if g.locksMemo[f] {
					changed = true
				}
			}
		}
	}
	return g.locksMemo[fn]
}
