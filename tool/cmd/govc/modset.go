package main

// Static frame inference: for every function of the verified packages, the
// set of heap components it may write (transitively). Used to havoc exactly
// those components at call sites and loop heads.

import (
	"go/types"
	"sort"
	"strings"

	"golang.org/x/tools/go/ssa"
)

type ModSet struct {
	all      bool // anything at all (unknown code)
	external bool // anything an out-of-package function can reach: every component except unexported fields of the module's own types
	comps    map[string]bool
}

func newModSet() *ModSet { return &ModSet{comps: map[string]bool{}} }

func (m *ModSet) union(o *ModSet) bool {
	ch := false
	if o.all && !m.all {
		m.all = true
		ch = true
	}
	if o.external && !m.external {
		m.external = true
		ch = true
	}
	for k := range o.comps {
		if !m.comps[k] {
			m.comps[k] = true
			ch = true
		}
	}
	return ch
}

func (m *ModSet) keys() []string {
	var ks []string
	for k := range m.comps {
		ks = append(ks, k)
	}
	sort.Strings(ks)
	return ks
}

func (m *ModSet) covers(key string) bool {
	if m.all {
		return true
	}
	if m.comps[key] {
		return true
	}
	if m.external && !isPrivateComp(key) {
		return true
	}
	return false
}

// isPrivateComp: field component of an unexported field of a type declared in the module.
func isPrivateComp(key string) bool {
	if !strings.HasPrefix(key, "F|") {
		return false
	}
	parts := strings.Split(key, "|")
	if len(parts) != 3 {
		return false
	}
	pk := parts[1]
	if !(strings.HasPrefix(pk, "genql.") || strings.HasPrefix(pk, "compare.") || strings.HasPrefix(pk, "sanitizer.")) {
		return false
	}
	f := parts[2]
	return f != "" && f[0] >= 'a' && f[0] <= 'z'
}

// component keys ------------------------------------------------------------

func (g *Gen) compField(st types.Type, field string) string {
	key := "F|" + structName(st) + "|" + field
	if _, ok := g.compSorts[key]; !ok {
		if s, ok := types.Unalias(st).Underlying().(*types.Struct); ok {
			for i := 0; i < s.NumFields(); i++ {
				if s.Field(i).Name() == field {
					g.compSorts[key] = "(Array Ref " + g.sortOf(s.Field(i).Type()) + ")"
				}
			}
		}
	}
	return key
}
func (g *Gen) compElem(elem types.Type) string { return "E|" + g.sortOf(elem) }
func (g *Gen) compCell(t types.Type) string    { return "C|" + g.sortOf(t) }
func (g *Gen) compMapVal(m *types.Map) string {
	return "M|" + g.sortOf(m.Key()) + "|" + g.sortOf(m.Elem())
}
func (g *Gen) compMapDom(m *types.Map) string {
	return "D|" + g.sortOf(m.Key()) + "|" + g.sortOf(m.Elem())
}

func (g *Gen) compSort(key string) string {
	parts := strings.Split(key, "|")
	switch parts[0] {
	case "F":
		return "(Array Ref " + parts[len(parts)-1] + ")" // filled by caller; see fieldCompSort
	case "E":
		return "(Array Ref (Array (_ BitVec 64) " + parts[1] + "))"
	case "C":
		return "(Array Ref " + parts[1] + ")"
	case "M":
		return "(Array Ref (Array " + parts[1] + " " + parts[2] + "))"
	case "D":
		return "(Array Ref (Array " + parts[1] + " Bool))"
	case "G":
		return "(Array Ref Int)"
	case "B":
		return "(Array Ref Str)"
	}
	return "(Array Ref Ref)"
}

// allFieldComps lists the components holding a struct value of type t stored at an address (recursively through struct-typed fields).
func (g *Gen) allFieldComps(t types.Type, out map[string]bool) {
	st, ok := types.Unalias(t).Underlying().(*types.Struct)
	if !ok {
		return
	}
	for i := 0; i < st.NumFields(); i++ {
		f := st.Field(i)
		if _, isS := types.Unalias(f.Type()).Underlying().(*types.Struct); isS {
			g.allFieldComps(f.Type(), out)
			continue
		}
		out[g.compField(t, f.Name())] = true
	}
}

// compsOfStoreTarget: components a store of a value of type t through addr may touch.
func (g *Gen) compsOfStoreTarget(addr ssa.Value, t types.Type, out map[string]bool) {
	switch a := addr.(type) {
	case *ssa.Alloc:
		if !a.Heap {
			return // never visible outside this activation
		}
	case *ssa.FieldAddr:
		pt := a.X.Type().Underlying().(*types.Pointer).Elem()
		st := pt.Underlying().(*types.Struct)
		f := st.Field(a.Field)
		if _, isS := types.Unalias(f.Type()).Underlying().(*types.Struct); isS {
			g.allFieldComps(f.Type(), out)
			return
		}
		// a field of a stack-allocated struct is invisible as well
		if base, ok := a.X.(*ssa.Alloc); ok && !base.Heap {
			return
		}
		out[g.compField(pt, f.Name())] = true
		return
	case *ssa.IndexAddr:
		var et types.Type
		switch xt := a.X.Type().Underlying().(type) {
		case *types.Slice:
			et = xt.Elem()
		case *types.Pointer:
			et = xt.Elem().Underlying().(*types.Array).Elem()
		}
		if et != nil {
			out[g.compElem(et)] = true
		}
		return
	}
	if _, isS := types.Unalias(t).Underlying().(*types.Struct); isS {
		g.allFieldComps(t, out)
		return
	}
	out[g.compCell(t)] = true
}

// external library call models: which components does a known function write?
// nil result means "unknown": treated as external.
func (g *Gen) libModSet(fn *ssa.Function, call *ssa.CallCommon) *ModSet {
	name := fn.String()
	if pure[name] || purePrefix(name) {
		return newModSet()
	}
	switch name {
	case "sort.Slice":
		m := newModSet()
		m.comps["E|Any"] = true
		// plus whatever the less function does; resolved by the caller (dynamic part)
		return m
	case "maps.Copy[map[string]any,map[string]any,string,any]", "maps.Copy":
		m := newModSet()
		m.comps["M|Str|Any"] = true
		m.comps["D|Str|Any"] = true
		return m
	case "(*sync.Mutex).Lock", "(*sync.Mutex).Unlock", "(*sync.RWMutex).Lock", "(*sync.RWMutex).Unlock",
		"(*sync.RWMutex).RLock", "(*sync.RWMutex).RUnlock":
		m := newModSet()
		m.comps["G|held"] = true
		return m
	case "(*sync.WaitGroup).Add", "(*sync.WaitGroup).Done", "(*sync.WaitGroup).Wait":
		m := newModSet()
		m.comps["G|wg"] = true
		return m
	case "(*bytes.Buffer).WriteRune", "(*bytes.Buffer).WriteString", "(*bytes.Buffer).WriteByte", "(*bytes.Buffer).Write":
		m := newModSet()
		m.comps["B|buf"] = true
		return m
	}
	if strings.HasPrefix(name, "maps.Copy[") {
		m := newModSet()
		m.comps["M|Str|Any"] = true
		m.comps["D|Str|Any"] = true
		return m
	}
	return nil
}

var pure = map[string]bool{
	"fmt.Sprintf": true, "fmt.Errorf": true, "fmt.Sprint": true, "errors.New": true,
	"strconv.Atoi": true, "strconv.ParseFloat": true, "strconv.ParseInt": true, "strconv.FormatInt": true,
	"strconv.FormatFloat": true, "strconv.Itoa": true, "strconv.ParseBool": true, "strconv.Quote": true,
	"math.Mod": true, "math.Floor": true, "math.IsNaN": true, "math.Abs": true,
	"regexp.Match": true, "regexp.MustCompile": true, "regexp.MatchString": true,
	"(*regexp.Regexp).FindAllString": true, "(*regexp.Regexp).MatchString": true, "(*regexp.Regexp).FindStringSubmatch": true,
	"(*regexp.Regexp).FindAllStringSubmatch": true, "(*regexp.Regexp).Match": true, "(*regexp.Regexp).FindString": true,
	"(*regexp.Regexp).ReplaceAllString": true,
	"bytes.NewBufferString": true, "(*bytes.Buffer).String": true, "(*bytes.Buffer).Len": true,
	"crypto/sha256.New": true, "crypto/sha256.Sum256": true, "crypto/sha1.New": true, "crypto/md5.New": true, "crypto/sha512.New": true,
	"crypto/sha1.Sum": true, "crypto/md5.Sum": true, "crypto/sha512.Sum512": true,
	"encoding/hex.EncodeToString": true, "encoding/hex.DecodeString": true,
	"(*encoding/base64.Encoding).EncodeToString": true, "(*encoding/base64.Encoding).DecodeString": true,
	"(*encoding/base32.Encoding).EncodeToString": true, "(*encoding/base32.Encoding).DecodeString": true,
	"reflect.TypeOf": true, "reflect.ValueOf": true, "(reflect.Value).Len": true, "(reflect.Value).Index": true,
	"(reflect.Value).Interface": true, "(*reflect.rtype).Kind": true, "(reflect.Value).Kind": true,
	"time.Now": true, "(time.Time).Unix": true, "(time.Time).UnixNano": true, "(time.Time).UnixMilli": true,
	"unicode/utf8.DecodeRuneInString": true, "unicode/utf8.RuneLen": true, "unicode/utf8.RuneCountInString": true,
	"unicode.IsSpace": true, "unicode.IsLetter": true, "unicode.IsDigit": true,
	"(*sync.RWMutex).RLocker": true,
	"encoding/gob.Register": true,
}

func purePrefix(name string) bool {
	for _, p := range []string{"strings.", "(*strings.Builder).", "github.com/vedadiyan/sqlparser/v2.", "(github.com/vedadiyan/sqlparser/v2.",
		"(*github.com/vedadiyan/sqlparser/v2.", "slices.Contains", "(*time.", "(time."} {
		if strings.HasPrefix(name, p) {
			return true
		}
	}
	return false
}

// computeModSets: fixpoint over the verified packages' functions.
func (g *Gen) computeModSets() {
	// address-taken functions by signature (targets of dynamic calls)
	bySig := map[string][]*ssa.Function{}
	for _, name := range g.fnames {
		fn := g.funcs[name]
		for _, b := range fn.Blocks {
			for _, ins := range b.Instrs {
				var ops []*ssa.Value
				ops = ins.Operands(ops)
				for i, op := range ops {
					if op == nil || *op == nil {
						continue
					}
					var target *ssa.Function
					switch v := (*op).(type) {
					case *ssa.Function:
						// skip the callee position of a static call
						if c, ok := ins.(ssa.CallInstruction); ok && i == 0 && c.Common().Value == v {
							continue
						}
						target = v
					case *ssa.MakeClosure:
						_ = v
					}
					if target != nil {
						k := sigKey(target.Signature)
						bySig[k] = append(bySig[k], target)
					}
				}
				if mc, ok := ins.(*ssa.MakeClosure); ok {
					f := mc.Fn.(*ssa.Function)
					k := sigKey(f.Signature)
					bySig[k] = append(bySig[k], f)
				}
			}
		}
	}
	g.dynTargets = bySig
	for _, name := range g.fnames {
		g.modsets[g.funcs[name]] = newModSet()
	}
	for changed := true; changed; {
		changed = false
		for _, name := range g.fnames {
			fn := g.funcs[name]
			ms := g.modsets[fn]
			for _, b := range fn.Blocks {
				for _, ins := range b.Instrs {
					if g.instrMods(fn, ins, ms) {
						changed = true
					}
				}
			}
		}
	}
}

func sigKey(s *types.Signature) string {
	return types.TypeString(types.NewSignatureType(nil, nil, nil, s.Params(), s.Results(), s.Variadic()), func(p *types.Package) string { return p.Path() })
}

// instrMods adds the components written by one instruction to ms; reports change.
func (g *Gen) instrMods(fn *ssa.Function, ins ssa.Instruction, ms *ModSet) bool {
	add := newModSet()
	switch ins := ins.(type) {
	case *ssa.Store:
		g.compsOfStoreTarget(ins.Addr, ins.Val.Type(), add.comps)
	case *ssa.MapUpdate:
		mt := ins.Map.Type().Underlying().(*types.Map)
		add.comps[g.compMapVal(mt)] = true
		add.comps[g.compMapDom(mt)] = true
	case ssa.CallInstruction:
		g.callMods(ins.Common(), add)
		if _, isGo := ins.(*ssa.Go); isGo {
			// a forked body runs concurrently; its writes are accounted to the spawner as well
		}
	}
	return ms.union(add)
}

func (g *Gen) callMods(cc *ssa.CallCommon, add *ModSet) {
	if cc.IsInvoke() {
		// interface method call: error.Error(), sqlparser node methods (String, Lowered, ...), hash.Hash methods
		recv := cc.Value.Type().String()
		if strings.Contains(recv, "sqlparser") || cc.Method.Name() == "Error" || strings.HasPrefix(recv, "hash.") || strings.HasPrefix(recv, "io.") {
			return
		}
		add.external = true
		return
	}
	switch v := cc.Value.(type) {
	case *ssa.Builtin:
		switch v.Name() {
		case "append":
			st := cc.Args[0].Type().Underlying().(*types.Slice)
			add.comps[g.compElem(st.Elem())] = true
		case "copy":
			if st, ok := cc.Args[0].Type().Underlying().(*types.Slice); ok {
				add.comps[g.compElem(st.Elem())] = true
			}
		case "delete":
			mt := cc.Args[0].Type().Underlying().(*types.Map)
			add.comps[g.compMapDom(mt)] = true
		case "clear":
			add.external = true
		}
		return
	case *ssa.Function:
		if ms, ok := g.modsets[v]; ok {
			add.union(ms)
			return
		}
		if lm := g.libModSet(v, cc); lm != nil {
			add.union(lm)
			if v.String() == "sort.Slice" && len(cc.Args) == 2 {
				g.dynMods(cc.Args[1], add)
			}
			return
		}
		g.abstracted["unmodelled library call "+v.String()]++
		add.external = true
		return
	case *ssa.MakeClosure:
		if ms, ok := g.modsets[v.Fn.(*ssa.Function)]; ok {
			add.union(ms)
			return
		}
	}
	g.dynMods(cc.Value, add)
}

// dynMods: a call through a function value.
func (g *Gen) dynMods(v ssa.Value, add *ModSet) {
	if mc, ok := v.(*ssa.MakeClosure); ok {
		if ms, ok := g.modsets[mc.Fn.(*ssa.Function)]; ok {
			add.union(ms)
			return
		}
	}
	sig, ok := v.Type().Underlying().(*types.Signature)
	if !ok {
		add.external = true
		return
	}
	for _, t := range g.dynTargets[sigKey(sig)] {
		if ms, ok := g.modsets[t]; ok {
			add.union(ms)
		}
	}
	// and any function supplied from outside the module
	add.external = true
}
