package main

import (
	"encoding/json"
	"flag"
	"fmt"
	"os"
	"path/filepath"
	"sort"
	"strings"
	"time"
)

func usage() {
	fmt.Fprintln(os.Stderr, `usage: govc [-repo dir] [-spec dir] <list|dump|check|all> [flags]`)
	os.Exit(2)
}

func main() {
	repo := flag.String("repo", "/repo", "repository working tree")
	specDir := flag.String("spec", "/verif/spec", "SMT prelude directory")
	flag.Parse()
	args := flag.Args()
	if len(args) == 0 {
		usage()
	}
	t0 := time.Now()
	g, err := loadProgram(*repo)
	if err != nil {
		fmt.Fprintln(os.Stderr, "govc: load:", err)
		os.Exit(2)
	}
	if err := g.loadSpec(*specDir); err != nil {
		fmt.Fprintln(os.Stderr, "govc: spec:", err)
		os.Exit(2)
	}
	if err := g.loadContracts(); err != nil {
		fmt.Fprintln(os.Stderr, "govc: contracts:", err)
		os.Exit(2)
	}
	g.computeModSets()
	g.computeUncontained()
	loadSecs := time.Since(t0).Seconds()
	switch args[0] {
	case "list":
		for _, n := range g.fnames {
			k := ""
			if g.contractFor(n) != nil {
				k = "  [contract]"
			}
			fmt.Printf("%s%s\n", n, k)
		}
	case "uncontained":
		for _, n := range g.fnames {
			if why, ok := g.uncontained[g.funcs[n]]; ok {
				fmt.Printf("%s: %s\n", n, why)
			}
		}
	case "mods":
		for _, n := range g.fnames {
			ms := g.modsets[g.funcs[n]]
			fmt.Printf("%s: all=%v external=%v %v\n", n, ms.all, ms.external, ms.keys())
		}
	case "dump":
		fs := flag.NewFlagSet("dump", flag.ExitOnError)
		fn := fs.String("func", "", "function (canonical name)")
		ob := fs.String("ob", "", "substring of obligation name whose script to print")
		solve := fs.Bool("solve", true, "run the solvers")
		timeout := fs.Int("t", 10, "timeout seconds")
		outDir := fs.String("out", "", "write the scripts of the obligations selected by -ob into this directory instead of printing them")
		split := fs.Bool("split", false, "emit one obligation per return instead of one per clause (debugging)")
		fs.Parse(args[1:])
		splitPending = *split
		dumpOut = *outDir
		cmdDump(g, *fn, *ob, *solve, *timeout)
	case "check":
		fs := flag.NewFlagSet("check", flag.ExitOnError)
		prop := fs.String("prop", "", "property id")
		tier := fs.String("tier", "quick", "quick|thorough")
		evid := fs.String("evidence", "", "evidence file to write")
		replays := fs.String("replays", "/verif/replays", "replay directory")
		known := fs.String("known", "/verif/known_findings.json", "known findings file")
		bounded := fs.String("bounded", "", "results of the bounded stand-ins for this property (JSON written by the bounded test run)")
		fs.Parse(args[1:])
		boundedFile = *bounded
		os.Exit(cmdCheck(g, *prop, *tier, *evid, *replays, *known, loadSecs))
	default:
		usage()
	}
}

var dumpOut string
var boundedFile string

func cmdDump(g *Gen, fn, ob string, solve bool, timeout int) {
	names := g.matchFuncs(fn)
	if len(names) == 0 {
		fmt.Println("no such function; see govc list")
		return
	}
	for _, n := range names {
		fv := g.newFnV(g.funcs[n])
		err := fv.run()
		if err != nil {
			fmt.Println("ERROR:", err)
		}
		for _, nt := range fv.notes {
			fmt.Println("note:", nt)
		}
		if solve {
			solveAll(fv.obs, timeout, false)
		}
		for _, o := range fv.obs {
			fmt.Printf("%-8s %-7s %6.2fs %s  props=%v  [%s]%s\n", o.Result, o.Solver, o.Secs, o.Name, o.Props, o.Pos, map[bool]string{true: " contained", false: ""}[o.Contained])
			if o.Static != "" && o.Static != "holds" {
				fmt.Println("     static:", o.Static)
			}
			if ob != "" && strings.Contains(o.Name, ob) && dumpOut != "" {
				os.MkdirAll(dumpOut, 0o755)
				os.WriteFile(filepath.Join(dumpOut, safeFile(o.Name)+".smt2"), []byte(o.Script), 0o644)
				continue
			}
			if ob != "" && strings.Contains(o.Name, ob) {
				fmt.Println("---- clause:", o.Clause)
				fmt.Println(o.Script)
				if o.Model != "" {
					fmt.Println("---- model:\n" + o.Model)
				}
			}
		}
	}
}

func (g *Gen) matchFuncs(pat string) []string {
	var out []string
	for _, n := range g.fnames {
		if n == pat || strings.HasSuffix(n, "."+pat) {
			out = append(out, n)
			continue
		}
		if strings.HasSuffix(pat, "[*]") && strings.HasPrefix(n, strings.TrimSuffix(pat, "*]")) {
			out = append(out, n)
		}
	}
	return out
}

// ---- property check ------------------------------------------------------------------

type KnownFinding struct {
	Property   string `json:"property"`
	Obligation string `json:"obligation"`
	Region     string `json:"region,omitempty"` // SMT predicate over the function's inputs on which the obligation is known to fail
	What       string `json:"what"`
	Witness    string `json:"witness,omitempty"`
}

type KnownFile struct {
	Findings []KnownFinding `json:"findings"`
	Fixed    []string       `json:"fixed"`
}

func hasProp(ps []string, p string) bool {
	for _, x := range ps {
		if x == p {
			return true
		}
	}
	return false
}

func (k *Contract) mentions(p string) bool {
	for _, cl := range k.Ensures {
		if hasProp(cl.Props, p) {
			return true
		}
	}
	for _, cl := range k.Requires {
		if hasProp(cl.Props, p) {
			return true
		}
	}
	for _, cls := range k.LoopInv {
		for _, cl := range cls {
			if hasProp(cl.Props, p) {
				return true
			}
		}
	}
	for _, d := range k.LoopDec {
		if hasProp(d.Props, p) {
			return true
		}
	}
	for _, cl := range k.RangeOver {
		if hasProp(cl.Props, p) {
			return true
		}
	}
	for _, cl := range k.Exhaustive {
		if hasProp(cl.Props, p) {
			return true
		}
	}
	for _, cl := range k.Rereads {
		if hasProp(cl.Props, p) {
			return true
		}
	}
	for _, cl := range k.Unconditional {
		if hasProp(cl.Props, p) {
			return true
		}
	}
	for _, cls := range k.CallAsserts {
		for _, cl := range cls {
			if hasProp(cl.Props, p) {
				return true
			}
		}
	}
	for _, ps := range k.SafetyAt {
		if hasProp(ps, p) {
			return true
		}
	}
	return hasProp(k.SafetyTags, p) || hasProp(k.ErrorTags, p) || hasProp(k.FrameTags, p) || hasProp(k.LockTags, p) || hasProp(k.OrderTags, p)
}

func cmdCheck(g *Gen, prop, tier, evid, replayDir, knownPath string, loadSecs float64) int {
	t0 := time.Now()
	timeout := 60
	if tier == "thorough" {
		timeout = 120
	}
	seed := 0
	fmt.Sscanf(os.Getenv("VERIF_SEED"), "%d", &seed)
	var known KnownFile
	if b, err := os.ReadFile(knownPath); err == nil {
		json.Unmarshal(b, &known)
	}
	var obs []*Obligation
	var funcsUnder []string
	var engineErrs []string
	trusted := map[string]string{}
	nContracts := 0
	// explicit contracts in file order, then functions that only carry package-wide tags
	keys := append([]string{}, g.contractOrder...)
	covered := map[string]bool{}
	for _, key := range g.contractOrder {
		for _, n := range g.matchFuncs(key) {
			covered[n] = true
		}
	}
	for _, n := range g.fnames {
		if !covered[n] && g.contractFor(n) != nil {
			keys = append(keys, n)
		}
	}
	for _, key := range keys {
		k := g.contracts[key]
		if k == nil {
			k = g.contractFor(key)
		} else if ms := g.matchFuncs(key); len(ms) > 0 {
			k = g.contractFor(ms[0])
		}
		if k == nil || !k.mentions(prop) {
			continue
		}
		nContracts++
		names := g.matchFuncs(key)
		if len(names) == 0 {
			o := &Obligation{Name: key + ".contract.binding", Kind: "B", Props: []string{prop}, Func: key, Clause: "the function this contract is written for exists", Static: "fails: no function " + key + " in the current tree", Result: "failed"}
			obs = append(obs, o)
			continue
		}
		for _, n := range names {
			if k.Trusted != "" {
				trusted[n] = k.Trusted // its ensures clauses are assumed; safety, error, lock and frame obligations of the body are still generated
			}
			fv := g.newFnV(g.funcs[n])
			if err := fv.run(); err != nil {
				engineErrs = append(engineErrs, err.Error())
				o := &Obligation{Name: n + ".contract.applies", Kind: "B", Props: []string{prop}, Func: n, Clause: "the contract can be evaluated against the current body", Static: "fails: " + err.Error(), Result: "failed"}
				obs = append(obs, o)
				continue
			}
			funcsUnder = append(funcsUnder, n)
			cnt := 0
			for _, o := range fv.obs {
				if hasProp(o.Props, prop) {
					obs = append(obs, o)
					cnt++
				}
			}
			// vacuity: the precondition is satisfiable and the function's exits are reachable
			if cnt > 0 {
				fv.emitCover(fv.entry, "requires-satisfiable", []string{prop}, "true", "the preconditions of "+n+" are satisfiable")
				obs = append(obs, fv.obs[len(fv.obs)-1])
			}
		}
	}
	obs = append(obs, g.globalObligations(prop)...)
	obs = append(obs, g.callerObligations(prop)...)
	obs = append(obs, g.typeObligations(prop)...)
	if g.recoverProps[prop] {
		obs = append(obs, g.recoverObligations(prop)...)
	}
	for _, l := range g.lemmas {
		if !hasProp(l.Clause.Props, prop) {
			continue
		}
		c := newCtx(g.reg)
		o := &Obligation{Name: l.Pkg + ".lemma." + l.Clause.Label, Kind: "M", Props: l.Clause.Props, Func: "(lemma)", Clause: l.Clause.Text, Pos: fmt.Sprintf("%s:%d", filepath.Base(l.Clause.File), l.Clause.Line)}
		o.Script = c.Script([]string{not(l.Clause.Text)}, nil)
		obs = append(obs, o)
	}
	// canary: the solver plumbing can refute
	{
		c := newCtx(g.reg)
		x := c.Fresh("canary", sBV64)
		o := &Obligation{Name: "engine.canary.must-be-refuted", Kind: "V", Props: []string{prop}, Func: "(engine)", Clause: "x+1 > x is not valid for 64-bit integers", ExpectSat: true}
		o.Script = c.Script([]string{not("(bvsgt (bvadd " + x + " #x0000000000000001) " + x + ")")}, []string{x})
		obs = append(obs, o)
	}
	// classify
	knownBy := map[string]KnownFinding{}
	for _, k := range known.Findings {
		if k.Property == prop {
			knownBy[k.Obligation] = k
		}
	}
	// a recorded finding does not switch its obligation off: the obligation is proved on the complement of the
	// recorded region; the unrestricted obligation gets a short attempt so that a repaired tree is noticed.
	outside := map[string]*Obligation{}
	var extra []*Obligation
	for _, o := range obs {
		kf, isKnown := knownBy[o.Name]
		if !isKnown || kf.Region == "" || o.Script == "" {
			continue
		}
		o2 := *o
		o2.Script = strings.Replace(o.Script, "(check-sat)", "(assert (not "+kf.Region+"))\n(check-sat)", 1)
		o2.Name = o.Name + "[outside known region]"
		outside[o.Name] = &o2
		extra = append(extra, &o2)
		o.shortTimeout = 5
	}
	solveAll(append(append([]*Obligation{}, obs...), extra...), timeout, tier == "thorough")

	exit := 0
	var failed, knownHit []*Obligation
	nOb, nDis, nCover, nCoverOK := 0, 0, 0, 0
	bySolver := map[string]int{}
	byKind := map[string]int{}
	solverSecs := 0.0
	for _, o := range obs {
		solverSecs += o.Secs
		if o.ExpectSat {
			nCover++
			if o.Result == "sat" {
				nCoverOK++
			} else {
				failed = append(failed, o)
			}
			continue
		}
		if o.Contained && prop == "C10" {
			continue // a panic here is converted to an error by the frame's recover: listed, not claimed under C10
		}
		if kf, isKnown := knownBy[o.Name]; isKnown && o.Result != "unsat" && o.Result != "holds" {
			_ = kf
			if o2 := outside[o.Name]; o2 != nil {
				nOb++
				byKind[o.Kind]++
				if o2.Result == "unsat" {
					knownHit = append(knownHit, o)
					nDis++
					bySolver[o2.Solver]++
					continue
				}
				// the obligation fails outside the recorded region as well: a different violation
				o.Model, o.Result, o.Script = o2.Model, o2.Result, o2.Script
				failed = append(failed, o)
				continue
			}
			knownHit = append(knownHit, o)
			continue
		}
		nOb++
		byKind[o.Kind]++
		if o.Result == "unsat" || o.Result == "holds" {
			nDis++
			bySolver[o.Solver]++
		} else {
			failed = append(failed, o)
		}
	}
	if nOb == 0 {
		fmt.Printf("govc: property %s has no obligations (no contract carries it)\n", prop)
		failed = append(failed, &Obligation{Name: "engine.no-obligations", Kind: "V", Clause: "at least one obligation is generated for the property", Result: "failed", Static: "fails: zero obligations"})
	}
	// report
	sort.Slice(failed, func(i, j int) bool { return failed[i].Name < failed[j].Name })
	for _, o := range knownHit {
		fmt.Printf("KNOWN-FINDING: property=%s %s: %s\n", prop, o.Name, knownBy[o.Name].What)
	}
	var replayPaths []string
	for _, o := range failed {
		exit = 1
		path := writeReplay(g, replayDir, prop, o, timeout)
		replayPaths = append(replayPaths, path)
		suffix := ""
		if !o.ReplayConfirmed {
			suffix = " no-failing-input-found"
		}
		fmt.Printf("failed obligation: %s (%s; %s) at %s: %s %s\n", o.Name, o.Result, o.Solver, o.Pos, o.Clause, o.Static)
		fmt.Printf("VIOLATION property=%s replay=%s%s\n", prop, path, suffix)
	}
	// bounded stand-ins (run by check.sh before this program): reported, never counted as proved
	if boundedFile != "" {
		var brs []map[string]any
		if b, err := os.ReadFile(boundedFile); err == nil && json.Unmarshal(b, &brs) == nil {
			boundedResults[prop] = brs
			for _, br := range brs {
				if v, _ := br["violations"].(float64); v > 0 {
					// violations whose class is a recorded finding are reported as such; any other class is a violation
					classes, _ := br["violation_classes"].(map[string]any)
					unknownClass := len(classes) == 0
					for cl := range classes {
						kf, isKnown := knownBy["bounded."+fmt.Sprint(br["name"])+"#"+cl]
						if isKnown {
							fmt.Printf("KNOWN-FINDING: property=%s bounded.%v [%s]: %s\n", prop, br["name"], cl, kf.What)
						} else {
							unknownClass = true
						}
					}
					if !unknownClass {
						continue
					}
					exit = 1
					d := filepath.Join(replayDir, prop)
					os.MkdirAll(d, 0o755)
					path := filepath.Join(d, "bounded."+safeFile(fmt.Sprint(br["name"]))+".json")
					wb, _ := json.MarshalIndent(br, "", " ")
					os.WriteFile(path, wb, 0o644)
					fmt.Printf("failed bounded stand-in: %v (%v violations in %v cases; bound: %v); first witnesses: %v\n", br["name"], br["violations"], br["cases"], br["bound"], br["witnesses"])
					fmt.Printf("VIOLATION property=%s replay=%s\n", prop, path)
				}
			}
		} else {
			exit = 1
			fmt.Printf("failed bounded stand-in: the bounded run of %s produced no result file (%s)\n", prop, boundedFile)
			path := filepath.Join(replayDir, prop, "bounded.missing.json")
			os.MkdirAll(filepath.Dir(path), 0o755)
			os.WriteFile(path, []byte(`{"note":"the bounded test run did not complete"}`), 0o644)
			fmt.Printf("VIOLATION property=%s replay=%s no-failing-input-found\n", prop, path)
		}
	}
	wall := time.Since(t0).Seconds() + loadSecs
	fmt.Printf("govc: property %s tier %s: %d obligations, %d discharged, %d failed, %d known findings, %d covers (%d ok), %d functions, %.1fs\n",
		prop, tier, nOb, nDis, len(failed), len(knownHit), nCover, nCoverOK, len(funcsUnder), wall)
	if evid != "" {
		writeEvidence(g, evid, prop, tier, seed, obs, failed, knownHit, knownBy, funcsUnder, trusted, nOb, nDis, nCover, nCoverOK, bySolver, byKind, solverSecs, wall, timeout, engineErrs)
	}
	return exit
}
