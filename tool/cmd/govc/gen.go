package main

// Program loading, Go type -> SMT sort mapping, the Any datatype, struct
// datatypes and zero values.

import (
	"fmt"
	"go/token"
	"go/types"
	"os"
	"sort"
	"strings"

	"golang.org/x/tools/go/packages"
	"golang.org/x/tools/go/ssa"
	"golang.org/x/tools/go/ssa/ssautil"
)

type Gen struct {
	repo   string
	fset   *token.FileSet
	pkgs   []*packages.Package
	prog   *ssa.Program
	spkgs  map[string]*ssa.Package // by path
	reg    *Registry
	funcs  map[string]*ssa.Function // canonical name -> function (genql packages)
	fnames []string

	anyCtors   map[string]*anyCtor // by type key
	anyOrder   []*anyCtor
	anyFrozen  bool
	structs    map[string]bool
	strLits    map[string]string
	srcCache   map[string][]byte
	otherTids  map[string]int
	modsets    map[*ssa.Function]*ModSet
	contracts  map[string]*Contract
	globalsDecl map[string]*GlobalDecl
	fieldsDecl  map[string]*FieldDecl
	specText   string
	abstracted map[string]int // what was havocked, for evidence
	compSorts  map[string]string
	dynTargets map[string][]*ssa.Function
	contractOrder []string
	lemmas     []*LemmaDecl
	globalNames []string
	callersDecl []*CallersDecl
	sameTypes   []*SameTypeDecl
	globalNonNil map[*ssa.Global]bool
	subCount   int
	subIDs     map[string]int
	specSigs   map[string]specSig
	specAxioms []string
	pkgDefaults map[string]map[string][]string
	synth      map[string]*Contract
	typeInvs   []*TypeInv
	apiRoots   map[string]bool
	nonnilParams map[string]bool
	crashRoots map[string]bool
	engineOwned map[string]bool
	definitional map[string]string
	recoverProps map[string]bool
	locksMemo  map[*ssa.Function]bool
	uncontained map[*ssa.Function]string
}

type anyCtor struct {
	key   string
	typ   types.Type
	ctor  string // constructor symbol
	sel   string // selector symbol
	sort  string // payload sort
	boxed bool   // payload is a Ref to an opaque box of a struct/array value
}

const modPath = "github.com/vedadiyan/genql"

func typeKey(t types.Type) string {
	return types.TypeString(types.Unalias(t), func(p *types.Package) string { return p.Path() })
}

func loadProgram(repo string) (*Gen, error) {
	cfg := &packages.Config{
		Mode:       packages.LoadAllSyntax,
		Dir:        repo,
		BuildFlags: []string{"-tags=verif"},
		Env:        append(os.Environ(), "GOFLAGS=-mod=mod", "GOPROXY=off", "GOSUMDB=off", "GOTOOLCHAIN=local"),
	}
	pkgs, err := packages.Load(cfg, "./...")
	if err != nil {
		return nil, err
	}
	for _, p := range pkgs {
		for _, e := range p.Errors {
			return nil, fmt.Errorf("package %s: %v", p.PkgPath, e)
		}
	}
	prog, spkgs := ssautil.AllPackages(pkgs, ssa.InstantiateGenerics|ssa.GlobalDebug)
	prog.Build()
	g := &Gen{
		repo: repo, fset: prog.Fset, pkgs: pkgs, prog: prog,
		spkgs: map[string]*ssa.Package{}, reg: newRegistry(),
		funcs: map[string]*ssa.Function{}, anyCtors: map[string]*anyCtor{},
		structs: map[string]bool{}, strLits: map[string]string{},
		srcCache: map[string][]byte{}, otherTids: map[string]int{},
		modsets: map[*ssa.Function]*ModSet{}, contracts: map[string]*Contract{},
		globalsDecl: map[string]*GlobalDecl{}, abstracted: map[string]int{},
		apiRoots: map[string]bool{}, crashRoots: map[string]bool{}, engineOwned: map[string]bool{}, definitional: map[string]string{}, recoverProps: map[string]bool{}, nonnilParams: map[string]bool{}, pkgDefaults: map[string]map[string][]string{}, synth: map[string]*Contract{}, compSorts: map[string]string{}, subIDs: map[string]int{}, specSigs: map[string]specSig{}, globalNonNil: map[*ssa.Global]bool{},
	}
	for _, p := range spkgs {
		if p != nil {
			g.spkgs[p.Pkg.Path()] = p
		}
	}
	// every function (incl. closures, methods, generic instances) of the module's packages
	for fn := range ssautil.AllFunctions(prog) {
		if fn.Pkg == nil && fn.Origin() == nil {
			continue
		}
		pk := fn.Pkg
		if pk == nil && fn.Origin() != nil {
			pk = fn.Origin().Pkg
		}
		if pk == nil || !strings.HasPrefix(pk.Pkg.Path(), modPath) {
			continue
		}
		if fn.Blocks == nil {
			continue
		}
		if fn.Synthetic != "" && !strings.Contains(fn.Synthetic, "instance of") {
			continue
		}
		if fn.TypeParams().Len() > 0 && len(fn.TypeArgs()) == 0 {
			continue // generic template
		}
		name := canonName(fn)
		g.funcs[name] = fn
	}
	for n := range g.funcs {
		g.fnames = append(g.fnames, n)
	}
	sort.Strings(g.fnames)
	g.basePrelude()
	g.collectAnyTypes()
	return g, nil
}

// canonName: pkgshort.Func, pkgshort.(*T).Method, pkgshort.Func$1, pkgshort.Cmp[int]
func canonName(fn *ssa.Function) string {
	pk := fn.Pkg
	if pk == nil && fn.Origin() != nil {
		pk = fn.Origin().Pkg
	}
	short := pk.Pkg.Name()
	s := fn.String() // e.g. github.com/vedadiyan/genql.CopyQuery, (*github.com/vedadiyan/genql.Query).exec, ...Cmp[int]
	s = strings.ReplaceAll(s, pk.Pkg.Path()+".", "")
	s = strings.ReplaceAll(s, modPath+"/", "")
	return short + "." + s
}

func (g *Gen) basePrelude() {
	r := g.reg
	r.add("(define-sort F64 () (_ FloatingPoint 11 53))", "F64")
	r.add("(define-sort F32 () (_ FloatingPoint 8 24))", "F32")
	r.add("(define-sort Str () Int) ; strings are opaque identifiers; 0 is the empty string, literals are 1, 2, ...", "Str")
	r.add("(declare-sort Ref 0)", "Ref")
	r.add("(declare-const nil!ref Ref)", "nil!ref")
	r.add("(declare-datatypes ((Slice 0)) (((mk!slice (s!ref Ref) (s!off (_ BitVec 64)) (s!len (_ BitVec 64)) (s!cap (_ BitVec 64))))))",
		"Slice", "mk!slice", "s!ref", "s!off", "s!len", "s!cap")
	r.add("(define-fun nil!slice () Slice (mk!slice nil!ref #x0000000000000000 #x0000000000000000 #x0000000000000000))", "nil!slice")
	r.add("(define-fun ok!slice ((s Slice)) Bool (and (bvsle #x0000000000000000 (s!len s)) (bvsle (s!len s) (s!cap s)) (bvsle #x0000000000000000 (s!off s)) (bvsle (s!cap s) #x0000010000000000) (bvsle (s!off s) #x0000010000000000) (=> (= (s!ref s) nil!ref) (= (s!cap s) #x0000000000000000))))", "ok!slice")
	// strings: uninterpreted carrier with length, byte access and the operations the code uses
	r.add("(declare-fun str!len (Str) (_ BitVec 64))", "str!len")
	r.add("(declare-fun str!at (Str (_ BitVec 64)) (_ BitVec 8))", "str!at")
	r.add("(declare-fun str!sub (Str (_ BitVec 64) (_ BitVec 64)) Str)", "str!sub")
	r.add("(declare-fun str!cat (Str Str) Str)", "str!cat")
	r.add("(declare-fun str!cmp (Str Str) Int)", "str!cmp")
	r.add("(define-fun str!empty () Str 0)", "str!empty")
	r.add("(define-fun ok!str ((s Str)) Bool (and (bvsle #x0000000000000000 (str!len s)) (bvsle (str!len s) #x0000010000000000)))", "ok!str")
	r.addAxiom("(assert (= (str!len str!empty) #x0000000000000000))", "str!empty")
}

func (g *Gen) strLit(s string) string {
	if s == "" {
		return "str!empty"
	}
	if n, ok := g.strLits[s]; ok {
		return n
	}
	name := fmt.Sprintf("lit!%d", len(g.strLits))
	g.strLits[s] = name
	g.reg.add(fmt.Sprintf("(define-fun %s () Str %d) ; %q", name, len(g.strLits), s), name)
	// length and bytes (bytes only for short literals)
	facts := []string{eq(app("str!len", name), bvLit(int64(len(s)), 64))}
	if len(s) <= 8 {
		for i := 0; i < len(s); i++ {
			facts = append(facts, eq(app("str!at", name, bvLit(int64(i), 64)), bvLit(int64(s[i]), 8)))
		}
	}
	g.reg.addAxiom("(assert "+and(facts...)+")", name)
	return name
}

func (g *Gen) sortOf(t types.Type) string {
	t = types.Unalias(t)
	switch u := t.Underlying().(type) {
	case *types.Basic:
		switch u.Kind() {
		case types.Bool, types.UntypedBool:
			return sBool
		case types.Int8, types.Uint8:
			return bvSort(8)
		case types.Int16, types.Uint16:
			return bvSort(16)
		case types.Int32, types.Uint32:
			return bvSort(32)
		case types.Int, types.Int64, types.Uint, types.Uint64, types.Uintptr, types.UntypedInt, types.UntypedRune:
			return sBV64
		case types.Float64, types.UntypedFloat:
			return sF64
		case types.Float32:
			return sF32
		case types.String, types.UntypedString:
			return sStr
		case types.UnsafePointer, types.UntypedNil:
			return sRef
		}
		return sRef
	case *types.Pointer, *types.Map, *types.Chan, *types.Signature:
		return sRef
	case *types.Slice:
		return sSlice
	case *types.Interface:
		return sAny
	case *types.Struct:
		return g.structSort(t, u)
	case *types.Array:
		return "(Array (_ BitVec 64) " + g.sortOf(u.Elem()) + ")"
	case *types.Tuple:
		return "Tuple"
	}
	return sRef
}

func isSigned(t types.Type) bool {
	if b, ok := types.Unalias(t).Underlying().(*types.Basic); ok {
		return b.Info()&types.IsUnsigned == 0
	}
	return true
}

func structName(t types.Type) string {
	if n, ok := types.Unalias(t).(*types.Named); ok {
		pk := ""
		if n.Obj().Pkg() != nil {
			pk = n.Obj().Pkg().Name() + "."
		}
		s := pk + n.Obj().Name()
		if ta := n.TypeArgs(); ta != nil && ta.Len() > 0 {
			s += "!" + sanitize(typeKey(ta.At(0)))
		}
		return s
	}
	return "anon!" + sanitize(typeKey(t))
}

func (g *Gen) structSort(t types.Type, st *types.Struct) string {
	name := structName(t)
	sortName := "S!" + name
	if g.structs[sortName] {
		return sortName
	}
	g.structs[sortName] = true
	var fields []string
	syms := []string{sortName, "mk!" + name}
	if st.NumFields() == 0 {
		g.reg.add(fmt.Sprintf("(declare-datatypes ((%s 0)) (((mk!%s))))", quoteSym(sortName), name), sortName, quoteSym("mk!"+name))
		return sortName
	}
	for i := 0; i < st.NumFields(); i++ {
		f := st.Field(i)
		fs := g.sortOf(f.Type())
		sel := quoteSym(name + "!" + f.Name())
		fields = append(fields, fmt.Sprintf("(%s %s)", sel, fs))
		syms = append(syms, sel)
	}
	text := fmt.Sprintf("(declare-datatypes ((%s 0)) (((%s %s))))", quoteSym(sortName), quoteSym("mk!"+name), strings.Join(fields, " "))
	syms[0] = quoteSym(sortName)
	syms[1] = quoteSym("mk!" + name)
	g.reg.add(text, syms...)
	return quoteSym(sortName)
}

func (g *Gen) structSel(t types.Type, field string) string {
	return quoteSym(structName(t) + "!" + field)
}
func (g *Gen) structMk(t types.Type) string { return quoteSym("mk!" + structName(t)) }

// zero value term of a Go type
func (g *Gen) zero(t types.Type) string {
	t = types.Unalias(t)
	s := g.sortOf(t)
	switch {
	case s == sBool:
		return "false"
	case isBV(s):
		return bvLit(0, bvWidth(s))
	case s == sF64:
		return "(_ +zero 11 53)"
	case s == sF32:
		return "(_ +zero 8 24)"
	case s == sStr:
		return "0"
	case s == sRef:
		return "nil!ref"
	case s == sSlice:
		return "nil!slice"
	case s == sAny:
		return "a!nil"
	}
	switch u := t.Underlying().(type) {
	case *types.Struct:
		if u.NumFields() == 0 {
			return g.structMk(t)
		}
		var fs []string
		for i := 0; i < u.NumFields(); i++ {
			fs = append(fs, g.zero(u.Field(i).Type()))
		}
		return app(g.structMk(t), fs...)
	case *types.Array:
		return fmt.Sprintf("((as const %s) %s)", s, g.zero(u.Elem()))
	}
	return "nil!ref"
}

// ---------------------------------------------------------------------------
// The Any datatype: one constructor per concrete dynamic type that the
// verified packages box, assert or switch on; a!other for the rest.

func (g *Gen) noteAnyType(t types.Type) {
	t = types.Unalias(t)
	if _, ok := t.Underlying().(*types.Interface); ok {
		return
	}
	if b, ok := t.(*types.Basic); ok && b.Kind() == types.UntypedNil {
		return
	}
	k := typeKey(t)
	if _, ok := g.anyCtors[k]; ok {
		return
	}
	for _, c := range g.anyOrder {
		if types.Identical(c.typ, t) {
			g.anyCtors[k] = c
			return
		}
	}
	if g.anyFrozen {
		return
	}
	n := sanitize(prettyTypeName(t))
	c := &anyCtor{key: k, typ: t, ctor: quoteSym("a!" + n), sel: quoteSym("v!" + n)}
	switch t.Underlying().(type) {
	case *types.Struct, *types.Array:
		c.boxed = true
		c.sort = sRef
	default:
		c.sort = g.sortOf(t)
	}
	g.anyCtors[k] = c
	g.anyOrder = append(g.anyOrder, c)
}

func prettyTypeName(t types.Type) string {
	s := shortTypeName(t)
	s = strings.ReplaceAll(s, "interface{}", "any")
	s = strings.ReplaceAll(s, "[]", "slice.")
	s = strings.ReplaceAll(s, "map[string]", "map.string.")
	s = strings.ReplaceAll(s, "*", "ptr.")
	return s
}

func shortTypeName(t types.Type) string {
	return types.TypeString(t, func(p *types.Package) string { return p.Name() })
}

func (g *Gen) collectAnyTypes() {
	// always present
	for _, k := range []types.BasicKind{types.Bool, types.Int, types.Int8, types.Int16, types.Int32, types.Int64,
		types.Uint, types.Uint8, types.Uint16, types.Uint32, types.Uint64, types.Float32, types.Float64, types.String} {
		g.noteAnyType(types.Typ[k])
	}
	anyT := types.NewInterfaceType(nil, nil)
	g.noteAnyType(types.NewSlice(anyT))
	g.noteAnyType(types.NewMap(types.Typ[types.String], anyT))
	g.noteAnyType(types.NewPointer(types.Typ[types.Float64]))
	g.noteAnyType(types.NewPointer(anyT))
	for _, name := range g.fnames {
		fn := g.funcs[name]
		for _, b := range fn.Blocks {
			for _, ins := range b.Instrs {
				if v, ok := ins.(ssa.Value); ok {
					if _, isT := v.Type().(*types.Tuple); !isT {
						g.sortOf(v.Type()) // registers struct sorts so that the prelude may mention them
						if sl, ok := v.Type().Underlying().(*types.Slice); ok {
							g.sortOf(sl.Elem())
						}
					}
				}
				switch ins := ins.(type) {
				case *ssa.MakeInterface:
					g.noteAnyType(ins.X.Type())
				case *ssa.TypeAssert:
					g.noteAnyType(ins.AssertedType)
				}
			}
		}
	}
	g.freezeAny()
}

func (g *Gen) freezeAny() {
	g.anyFrozen = true
	var cs []string
	syms := []string{"Any", "a!nil", "a!other", "o!tid", "o!ref"}
	cs = append(cs, "(a!nil)")
	for _, c := range g.anyOrder {
		cs = append(cs, fmt.Sprintf("(%s (%s %s))", c.ctor, c.sel, c.sort))
		syms = append(syms, c.ctor, c.sel)
	}
	cs = append(cs, "(a!other (o!tid Int) (o!ref Ref))")
	// payload sorts (structs never appear: boxed) must be registered before
	g.reg.add("(declare-datatypes ((Any 0)) (("+strings.Join(cs, " ")+")))", syms...)
}

func (g *Gen) ctorFor(t types.Type) *anyCtor {
	if c, ok := g.anyCtors[typeKey(t)]; ok {
		return c
	}
	for _, c := range g.anyOrder {
		if types.Identical(c.typ, t) {
			g.anyCtors[typeKey(t)] = c
			return c
		}
	}
	return nil
}

// isType: SMT predicate "dynamic type of x is exactly t" (concrete t) or
// "x is non-nil and implements t" (interface t).
func (g *Gen) isType(x string, t types.Type) string {
	t = types.Unalias(t)
	if it, ok := t.Underlying().(*types.Interface); ok {
		if it.NumMethods() == 0 {
			return not(eq(x, "a!nil"))
		}
		var alts []string
		for _, c := range g.anyOrder {
			if types.Implements(c.typ, it) {
				alts = append(alts, "((_ is "+c.ctor+") "+x+")")
			}
		}
		p := g.implPred(t)
		alts = append(alts, and("((_ is a!other) "+x+")", app(p, "(o!tid "+x+")")))
		return or(alts...)
	}
	if c := g.ctorFor(t); c != nil {
		return "((_ is " + c.ctor + ") " + x + ")"
	}
	return and("((_ is a!other) "+x+")", eq("(o!tid "+x+")", fmt.Sprint(g.otherTid(t))))
}

func (g *Gen) otherTid(t types.Type) int {
	k := typeKey(t)
	if id, ok := g.otherTids[k]; ok {
		return id
	}
	id := len(g.otherTids) + 1
	g.otherTids[k] = id
	return id
}

func (g *Gen) implPred(t types.Type) string {
	name := quoteSym("impl!" + sanitize(shortTypeName(t)))
	if !g.reg.has(name) {
		g.reg.add(fmt.Sprintf("(declare-fun %s (Int) Bool)", name), name)
	}
	return name
}

// box: value of static type t -> Any
func (g *Gen) box(c *Ctx, v string, t types.Type) string {
	t = types.Unalias(t)
	if _, ok := t.Underlying().(*types.Interface); ok {
		return v
	}
	ct := g.ctorFor(t)
	if ct == nil {
		g.abstracted["box of unlisted type "+typeKey(t)]++
		r := c.Fresh("boxref", sRef)
		return app("a!other", fmt.Sprint(g.otherTid(t)), r)
	}
	if ct.boxed {
		bf, uf := g.boxFuns(ct)
		r := c.Define("box", sRef, app(bf, v))
		c.AddFact(r, eq(app(uf, r), v))
		return app(ct.ctor, r)
	}
	return app(ct.ctor, v)
}

func (g *Gen) boxFuns(ct *anyCtor) (string, string) {
	n := strings.Trim(ct.ctor, "|")
	bf, uf := quoteSym("box!"+n), quoteSym("unbox!"+n)
	if !g.reg.has(bf) {
		s := g.sortOf(ct.typ)
		g.reg.add(fmt.Sprintf("(declare-fun %s (%s) Ref)", bf, s), bf)
		g.reg.add(fmt.Sprintf("(declare-fun %s (Ref) %s)", uf, s), uf)
	}
	return bf, uf
}

// unbox: Any known to hold concrete t -> value
func (g *Gen) unbox(c *Ctx, x string, t types.Type) string {
	t = types.Unalias(t)
	if _, ok := t.Underlying().(*types.Interface); ok {
		return x
	}
	ct := g.ctorFor(t)
	if ct == nil {
		g.abstracted["unbox of unlisted type "+typeKey(t)]++
		return c.Fresh("unboxed", g.sortOf(t))
	}
	if ct.boxed {
		_, uf := g.boxFuns(ct)
		return app(uf, app(ct.sel, x))
	}
	return app(ct.sel, x)
}

// source text helpers -------------------------------------------------------

func (g *Gen) src(file string) []byte {
	if b, ok := g.srcCache[file]; ok {
		return b
	}
	b, _ := os.ReadFile(file)
	g.srcCache[file] = b
	return b
}
