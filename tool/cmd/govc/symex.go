package main

// Symbolic execution of one SSA function against its contract: block-level
// path conditions, versioned heap components merged by ite at joins, loops cut
// at headers with invariants, calls replaced by callee contracts.

import (
	"fmt"
	"go/ast"
	"go/token"
	"go/types"
	"sort"
	"strings"

	"golang.org/x/tools/go/ssa"
)

// ---- symbolic values -------------------------------------------------------

const (
	pPlain = iota // ref is the address of a T (struct: fields at F|T|f[ref]; else cell C|sort[ref])
	pField        // field `field` of struct type st at address ref
	pElem         // element idx of backing array ref, then a field path
)

type pathStep struct {
	st    types.Type
	field string
	ft    types.Type
}

type Ptr struct {
	kind  int
	ref   string
	st    types.Type
	field string
	idx   string
	elemT types.Type
	path  []pathStep
	alloc *ssa.Alloc // when it is the address of a local
}

type SV struct {
	v   Val
	ptr *Ptr
	tup []SV
	clo *ssa.MakeClosure
	fn  *ssa.Function
	typ types.Type
}

// ---- state -----------------------------------------------------------------

type Base struct {
	id      int
	parents []*Base
	conds   []string
	keep    *Base // private components inherit from here (external havoc)
	keepAll map[string]bool
	cache   map[string]string
}

type State struct {
	pc   string
	heap map[string]string
	base *Base
	now  string
}

func (s *State) clone() *State {
	h := make(map[string]string, len(s.heap))
	for k, v := range s.heap {
		h[k] = v
	}
	return &State{pc: s.pc, heap: h, base: s.base, now: s.now}
}

// ---- obligations -----------------------------------------------------------

type Obligation struct {
	Name      string   `json:"name"`
	Kind      string   `json:"kind"`
	Props     []string `json:"props"`
	Func      string   `json:"func"`
	Clause    string   `json:"clause"`
	Pos       string   `json:"pos"`
	Contained bool     `json:"contained,omitempty"`
	ExpectSat bool     `json:"expect_sat,omitempty"`
	Static    string   `json:"static,omitempty"` // decided without a solver: "holds" / "fails: why"
	Script    string   `json:"-"`
	Inputs    []string `json:"-"`
	Result    string   `json:"result"`
	Solver    string   `json:"solver"`
	Secs      float64  `json:"secs"`
	Model     string   `json:"model,omitempty"`
	AllRes    map[string]string `json:"all_results,omitempty"`
	SiteKey   string   `json:"-"`
	ReplayConfirmed bool `json:"replay_confirmed,omitempty"`
	Retried   bool     `json:"retried_alone_with_three_times_the_limit,omitempty"`
	ClauseRef *Clause `json:"-"`
	shortTimeout int
	fv        *FnV
}

// ---- per function verifier ------------------------------------------------

type loopInfo struct {
	ordinal int
	header  *ssa.BasicBlock
	body    map[*ssa.BasicBlock]bool
	back    []*ssa.BasicBlock
	mods    *ModSet
	phis    map[*ssa.Phi]string
	entrySt *State
	decHead string
	autoInv []string
	callsIn []int
	heldEntry string
}

type FnV struct {
	atCallHit map[*Clause]bool // at-call clauses that met a call site
	g     *Gen
	c     *Ctx
	fn    *ssa.Function
	name  string
	k     *Contract
	vals  map[ssa.Value]*SV
	end   map[*ssa.BasicBlock]*State
	edgeC map[[2]int]string
	obs   []*Obligation
	base0 *Base
	nbase int
	entry *State
	now0  string
	loops map[*ssa.BasicBlock]*loopInfo
	backE map[[2]int]bool
	names map[string]int // obligation name counts
	params map[string]*SV
	paramTerms []string
	hasRecover bool
	defers []*ssa.Defer
	errCalls []*errCall
	localNames map[string][]*ssa.DebugRef
	curBlock *ssa.BasicBlock
	lent map[*ssa.Alloc]token.Pos
	notes []string
	retCount int
	lockSites []string
	guardedVals map[ssa.Value]*GlobalDecl
	wgWaits []token.Pos
	wgEvents []wgEv
	goSites []*ssa.Go
	pending map[string]*pendingOb
	panicking string
	subSeen map[string]bool
	curHeld string
	lastDocWrite string
	curWriteTarget ssa.Value
	curWriteKey string
	callFlags map[string][]string
	guardedFields map[ssa.Value]guardedField
	guardedSlices map[ssa.Value]string
	published []publishedRef
	ownRecover bool
	pendingOrder []string
}

func (fv *FnV) pkgShort() string {
	if i := strings.Index(fv.name, "."); i > 0 {
		return fv.name[:i]
	}
	return fv.name
}

type paramFact struct {
	label, text, term string
}

// paramFacts: what callers owe for a parameter of Go type t holding value v: non-nil (unless declared nullable) and the type invariants of t.
func (fv *FnV) paramFacts(st, old *State, name string, t types.Type, v string, k *Contract) []paramFact {
	var out []paramFact
	pt, isPtr := types.Unalias(t).Underlying().(*types.Pointer)
	if !isPtr {
		return nil
	}
	if k != nil && k.Nullable[name] {
		return nil
	}
	out = append(out, paramFact{"nonnil." + name, name + " != nil", not(eq(v, "nil!ref"))})
	tn := "*" + shortTypeName(pt.Elem())
	for _, ti := range fv.g.typeInvs {
		if tn != "*"+ti.Pkg+"."+strings.TrimPrefix(ti.Type, "*") {
			continue
		}
		env := &CEnv{fv: fv, st: st, old: old, vars: map[string]CVal{"self": {T: v, S: sRef, Typ: t}}, bound: map[string]CVal{}, freePtrs: map[string]CVal{}}
		for _, p := range fv.g.pkgs {
			if p.Types.Name() == ti.Pkg {
				env.pkg = p.Types
			}
		}
		tm, err := env.evalBool(ti.Clause.Text)
		if err != nil {
			panic(unsupported("type invariant " + ti.Clause.Label + ": " + err.Error()))
		}
		out = append(out, paramFact{ti.Clause.Label + "." + name, ti.Clause.Text + " [self = " + name + "]", tm})
	}
	return out
}

// innermostLoop: the smallest loop containing the current block.
func (fv *FnV) innermostLoop() *loopInfo {
	var best *loopInfo
	for _, li := range fv.loops {
		if li.body[fv.curBlock] && (best == nil || len(li.body) < len(best.body)) {
			best = li
		}
	}
	return best
}

// panickingTerm: ghost flag "this (deferred) function runs while a panic is in flight".
func (fv *FnV) panickingTerm() string {
	if fv.panicking == "" {
		fv.panicking = fv.c.Fresh("panicking", sBool)
	}
	return fv.panicking
}

// pendingOb: an obligation checked at several program points (every return), emitted once as a conjunction.
type pendingOb struct {
	kind, label, clause string
	props []string
	parts []string
	pos token.Pos
	cl *Clause
}

func (fv *FnV) addPending(st *State, kind, label string, props []string, goal, clause string, pos token.Pos) {
	if fv.pending == nil {
		fv.pending = map[string]*pendingOb{}
	}
	key := kind + "." + label
	p := fv.pending[key]
	if p == nil {
		p = &pendingOb{kind: kind, label: label, clause: clause, props: props, pos: pos}
		fv.pending[key] = p
		fv.pendingOrder = append(fv.pendingOrder, key)
	}
	p.parts = append(p.parts, implies(st.pc, goal))
}

var splitPending bool

func (fv *FnV) flushPending() {
	for _, key := range fv.pendingOrder {
		p := fv.pending[key]
		if splitPending || (p.kind == "E" && fv.k != nil && fv.k.SplitReturns) {
			for i, part := range p.parts {
				o := fv.emit(nil, p.kind, fmt.Sprintf("%s@return%d", p.label, i+1), p.props, part, p.clause, p.pos)
				o.ClauseRef = p.cl
			}
			continue
		}
		o := fv.emit(nil, p.kind, p.label, p.props, and(p.parts...), p.clause, p.pos)
		o.ClauseRef = p.cl
	}
	fv.pending, fv.pendingOrder = nil, nil
}

type errCall struct {
	id     int
	callee string
	errV   string
	pos    token.Pos
	block  *ssa.BasicBlock
	absorbed string
}

func (g *Gen) newFnV(fn *ssa.Function) *FnV {
	fv := &FnV{g: g, c: newCtx(g.reg), fn: fn, name: canonName(fn), vals: map[ssa.Value]*SV{},
		end: map[*ssa.BasicBlock]*State{}, edgeC: map[[2]int]string{}, loops: map[*ssa.BasicBlock]*loopInfo{},
		backE: map[[2]int]bool{}, names: map[string]int{}, params: map[string]*SV{}, localNames: map[string][]*ssa.DebugRef{},
		lent: map[*ssa.Alloc]token.Pos{}}
	fv.k = g.contractFor(fv.name)
	return fv
}

func (fv *FnV) note(format string, a ...any) {
	fv.notes = append(fv.notes, fmt.Sprintf(format, a...))
}

func (fv *FnV) newBase() *Base {
	fv.nbase++
	return &Base{id: fv.nbase, cache: map[string]string{}}
}

// heap access -----------------------------------------------------------------

func (fv *FnV) compSort(key string) string {
	if s, ok := fv.g.compSorts[key]; ok {
		return s
	}
	return fv.g.compSort(key)
}

func (fv *FnV) baseVal(b *Base, key string) string {
	if v, ok := b.cache[key]; ok {
		return v
	}
	var v string
	switch {
	case b.keep != nil && (isPrivateComp(key) || b.keepAll[key]):
		v = fv.baseVal(b.keep, key)
	case len(b.parents) > 0:
		t := fv.baseVal(b.parents[len(b.parents)-1], key)
		for i := len(b.parents) - 2; i >= 0; i-- {
			t = ite(b.conds[i], fv.baseVal(b.parents[i], key), t)
		}
		v = fv.c.Define(fmt.Sprintf("Hm%d!%s", b.id, key), fv.compSort(key), t)
	default:
		v = fv.c.Fresh(fmt.Sprintf("H%d!%s", b.id, key), fv.compSort(key))
	}
	b.cache[key] = v
	return v
}

func (fv *FnV) heapGet(st *State, key string) string {
	if v, ok := st.heap[key]; ok {
		return v
	}
	if strings.HasPrefix(key, "X|") {
		return "false"
	}
	return fv.baseVal(st.base, key)
}

func (fv *FnV) heapSet(st *State, key, term string) {
	st.heap[key] = fv.c.Define("h!"+key, fv.compSort(key), term)
}

func (fv *FnV) assume(st *State, fact string) {
	if fact == "true" || fact == "" {
		return
	}
	st.pc = fv.c.Define("pc", sBool, and(st.pc, fact))
}

// havoc the components in ms; locals of this activation that never escape keep their values.
func (fv *FnV) havoc(st *State, ms *ModSet, why string) {
	// Lock state is not changed by calls: every function that locks or unlocks directly carries lock-balance
	// obligations (package-wide `locks` tag), so by induction over the call tree a call returns with every mutex as it found it.
	heldBefore := fv.heapGet(st, "G|held")
	waitedBefore := fv.heapGet(st, "G|waited")
	defer func() { st.heap["G|held"] = heldBefore; st.heap["G|waited"] = waitedBefore }()
	switch {
	case ms.all || ms.external:
		nb := fv.newBase()
		if ms.external && !ms.all {
			nb.keep = st.base
			nb.keepAll = map[string]bool{}
		}
		saved := map[string]string{}
		for k, v := range st.heap {
			if strings.HasPrefix(k, "X|") || strings.HasPrefix(k, "L|") {
				saved[k] = v
				continue
			}
			if ms.external && !ms.all && isPrivateComp(k) && !ms.comps[k] {
				saved[k] = v
			}
		}
		// ghost lock state survives calls that do not touch it
		for _, gk := range []string{"G|held", "G|wg"} {
			if !ms.all && !ms.comps[gk] {
				saved[gk] = fv.heapGet(st, gk)
			}
		}
		// private comps named explicitly are havocked even under `external`
		locals := fv.snapshotLocals(st)
		st.heap = saved
		st.base = nb
		if ms.external && !ms.all {
			for k := range ms.comps {
				if isPrivateComp(k) {
					st.heap[k] = fv.c.Fresh("Hh!"+k, fv.compSort(k))
				}
			}
		}
		fv.restoreLocals(st, locals)
	default:
		locals := fv.snapshotLocals(st)
		for _, k := range ms.keys() {
			st.heap[k] = fv.c.Fresh("Hh!"+k, fv.compSort(k))
		}
		fv.restoreLocals(st, locals)
	}
	n := fv.c.Fresh("now", sInt)
	fv.assume(st, "(>= "+n+" "+st.now+")")
	st.now = n
}

// cellWrittenOnlyByParent: a captured local whose address only flows into closures that never assign it (they
// may read it, or write through the value it holds). No callee can change such a cell.
func cellWrittenOnlyByParent(a *ssa.Alloc) bool {
	for _, ref := range *a.Referrers() {
		switch r := ref.(type) {
		case *ssa.Store:
			if r.Addr != a {
				return false // the address itself is stored somewhere
			}
		case *ssa.UnOp, *ssa.DebugRef, *ssa.FieldAddr, *ssa.IndexAddr:
		case *ssa.MakeClosure:
			fn := r.Fn.(*ssa.Function)
			for i, b := range r.Bindings {
				if b != a {
					continue
				}
				fvv := fn.FreeVars[i]
				for _, fr := range *fvv.Referrers() {
					switch x := fr.(type) {
					case *ssa.UnOp, *ssa.DebugRef:
					case *ssa.Store:
						if x.Addr == fvv {
							return false
						}
						return false
					default:
						return false
					}
				}
			}
		default:
			return false
		}
	}
	return true
}

type localSnap struct {
	key, ref, val string
}

// snapshotLocals records the contents of non-escaping Allocs already executed.
func (fv *FnV) snapshotLocals(st *State) []localSnap {
	var out []localSnap
	for v, sv := range fv.vals {
		a, ok := v.(*ssa.Alloc)
		if !ok || sv.ptr == nil {
			continue
		}
		if a.Heap && !cellWrittenOnlyByParent(a) {
			continue
		}
		t := a.Type().Underlying().(*types.Pointer).Elem()
		keys := map[string]bool{}
		switch ut := types.Unalias(t).Underlying().(type) {
		case *types.Struct:
			fv.g.allFieldComps(t, keys)
		case *types.Array:
			keys[fv.g.compElem(ut.Elem())] = true
		default:
			keys[fv.g.compCell(t)] = true
		}
		for k := range keys {
			if _, present := st.heap[k]; !present {
				continue
			}
			out = append(out, localSnap{k, sv.ptr.ref, sel(fv.heapGet(st, k), sv.ptr.ref)})
		}
	}
	// captured variables that nobody assigns after their initialisation keep their value as well
	for _, f := range fv.fn.FreeVars {
		if !immutableCapture(fv.fn, f) {
			continue
		}
		pt, ok := f.Type().Underlying().(*types.Pointer)
		if !ok {
			continue
		}
		if _, isS := isStruct(pt.Elem()); isS {
			continue
		}
		k := fv.g.compCell(pt.Elem())
		ref := fv.term(fv.vals[f])
		out = append(out, localSnap{k, ref, sel(fv.heapGet(st, k), ref)})
	}
	sort.Slice(out, func(i, j int) bool { return out[i].key+out[i].ref < out[j].key+out[j].ref })
	return out
}

// immutableCapture: the captured variable is a parameter or local of the parent that is assigned exactly once
// (its initialisation) and by no closure.
func immutableCapture(fn *ssa.Function, f *ssa.FreeVar) bool {
	p := fn.Parent()
	if p == nil {
		return false
	}
	idx := -1
	for i, x := range fn.FreeVars {
		if x == f {
			idx = i
		}
	}
	for _, b := range p.Blocks {
		for _, ins := range b.Instrs {
			mc, ok := ins.(*ssa.MakeClosure)
			if !ok || mc.Fn != fn || idx >= len(mc.Bindings) {
				continue
			}
			al, ok := mc.Bindings[idx].(*ssa.Alloc)
			if !ok {
				return false
			}
			if !cellWrittenOnlyByParent(al) {
				return false
			}
			stores := 0
			for _, r := range *al.Referrers() {
				if s, ok := r.(*ssa.Store); ok && s.Addr == al {
					stores++
				}
			}
			return stores <= 1
		}
	}
	return false
}

func (fv *FnV) restoreLocals(st *State, snaps []localSnap) {
	for _, s := range snaps {
		fv.heapSet(st, s.key, sto(fv.heapGet(st, s.key), s.ref, s.val))
	}
}

// ---- well-formedness facts Go guarantees ------------------------------------

func (fv *FnV) bornFn() string {
	if !fv.g.reg.has("birth") {
		fv.g.reg.add("(declare-fun birth (Ref) Int)", "birth")
		fv.g.reg.add("(declare-fun rtag (Ref) Int)", "rtag")
		fv.g.reg.addAxiom("(assert (= (birth nil!ref) (- 1)))", "birth", "nil!ref")
		// born!any: allocation time of the object an interface value refers to (-1 when it holds none)
		var b strings.Builder
		b.WriteString("(define-fun born!any ((x Any)) Int ")
		closers := 0
		for _, c := range fv.g.anyOrder {
			switch c.sort {
			case sRef:
				fmt.Fprintf(&b, "(ite ((_ is %s) x) (birth (%s x)) ", c.ctor, c.sel)
				closers++
			case sSlice:
				fmt.Fprintf(&b, "(ite ((_ is %s) x) (birth (s!ref (%s x))) ", c.ctor, c.sel)
				closers++
			}
		}
		b.WriteString("(ite ((_ is a!other) x) (birth (o!ref x)) (- 1))")
		b.WriteString(strings.Repeat(")", closers))
		b.WriteString(")")
		fv.g.reg.add(b.String(), "born!any")
		// ok!any: slices inside interface values are well formed
		var w strings.Builder
		w.WriteString("(define-fun ok!any ((x Any)) Bool (and true")
		for _, c := range fv.g.anyOrder {
			switch c.sort {
			case sSlice:
				fmt.Fprintf(&w, " (=> ((_ is %s) x) (ok!slice (%s x)))", c.ctor, c.sel)
			case sStr:
				fmt.Fprintf(&w, " (=> ((_ is %s) x) (ok!str (%s x)))", c.ctor, c.sel)
			}
		}
		w.WriteString("))")
		fv.g.reg.add(w.String(), "ok!any")
	}
	return "birth"
}

// wf returns the facts Go guarantees about a value of type t that exists at time `now`.
func (fv *FnV) wf(v string, t types.Type, now string) string {
	fv.bornFn()
	s := fv.g.sortOf(t)
	switch s {
	case sRef:
		return "(< (birth " + v + ") " + now + ")"
	case sSlice:
		return and("(ok!slice "+v+")", "(< (birth (s!ref "+v+")) "+now+")")
	case sStr:
		return "(ok!str " + v + ")"
	case sAny:
		return and("(ok!any "+v+")", "(< (born!any "+v+") "+now+")")
	}
	if st, ok := types.Unalias(t).Underlying().(*types.Struct); ok {
		var fs []string
		for i := 0; i < st.NumFields(); i++ {
			f := st.Field(i)
			fs = append(fs, fv.wf(app(fv.g.structSel(t, f.Name()), v), f.Type(), now))
		}
		return and(fs...)
	}
	return "true"
}

// ---- main driver --------------------------------------------------------------

func (fv *FnV) run() (err error) {
	defer func() {
		if r := recover(); r != nil {
			if os, ok := r.(unsupported); ok {
				err = fmt.Errorf("%s: unsupported: %s", fv.name, string(os))
				return
			}
			panic(r)
		}
	}()
	fn := fv.fn
	fv.bornFn()
	_, isUnc := fv.g.uncontained[fn]
	fv.hasRecover = !isUnc
	fv.ownRecover = fnRecovers(fn)
	fv.base0 = fv.newBase()
	fv.now0 = fv.c.Fresh("now0", sInt)
	st := &State{pc: "true", heap: map[string]string{}, base: fv.base0, now: fv.now0}
	fv.entry = st
	fv.assume(st, "(>= "+fv.now0+" 0)")
	for _, p := range fn.Params {
		name := p.Name()
		if name == "" || name == "_" {
			name = fmt.Sprintf("arg%d", len(fv.paramTerms))
		}
		t := fv.c.Fresh("p!"+name, fv.g.sortOf(p.Type()))
		sv := fv.fromTerm(t, p.Type())
		fv.vals[p] = sv
		fv.params[name] = sv
		fv.paramTerms = append(fv.paramTerms, t)
		fv.assume(st, fv.wf(t, p.Type(), fv.now0))
	}
	for _, f := range fn.FreeVars {
		t := fv.c.Fresh("fv!"+f.Name(), fv.g.sortOf(f.Type()))
		sv := fv.fromTerm(t, f.Type())
		fv.vals[f] = sv
		fv.params[f.Name()] = sv
		fv.paramTerms = append(fv.paramTerms, t)
		fv.assume(st, fv.wf(t, f.Type(), fv.now0))
		// a captured cell is a real cell
		fv.assume(st, not(eq(t, "nil!ref")))
	}
	// distinctness of globals is implied by their declarations
	// debug names
	for _, b := range fn.Blocks {
		for _, ins := range b.Instrs {
			if d, ok := ins.(*ssa.DebugRef); ok {
				if id, ok := d.Expr.(*ast.Ident); ok {
					fv.localNames[id.Name] = append(fv.localNames[id.Name], d)
				}
			}
		}
	}
	// parameters of internal functions: non-nil pointers and type invariants (checked at every call site inside the module)
	if pkgName := fv.pkgShort(); fv.g.nonnilParams[pkgName] && !fv.g.apiRoots[fv.name] {
		for _, p := range fn.Params {
			for _, f := range fv.paramFacts(st, st, p.Name(), p.Type(), fv.term(fv.vals[p]), fv.k) {
				fv.assume(st, f.term)
			}
		}
	}
	// package-level mutexes are free at every function entry: no function of the module holds one across a call
	// that could lock it again (obligation L.no-relock at each call made while a mutex is held)
	for key, gd := range fv.g.globalsDecl {
		if gd.Kind != "mutex" || gd.Pkg != fv.pkgShort() {
			continue
		}
		if sp := fv.g.spkgs[fv.pkgTypes().Path()]; sp != nil {
			if gl, ok := sp.Members[gd.Name].(*ssa.Global); ok {
				_ = key
				fv.assume(st, eq(sel(fv.heapGet(st, "G|held"), fv.val(gl).v.T), "0"))
			}
		}
	}
	// the same for the mutex field that a `field S.f guarded_by m` declaration names, of every *S parameter
	for _, fd := range fv.g.fieldsDecl {
		for _, p := range fn.Params {
			pt, ok := p.Type().Underlying().(*types.Pointer)
			if !ok {
				continue
			}
			nt, ok := types.Unalias(pt.Elem()).(*types.Named)
			if !ok || nt.Obj().Name() != fd.Struct {
				continue
			}
			stt, ok := nt.Underlying().(*types.Struct)
			if !ok {
				continue
			}
			for i := 0; i < stt.NumFields(); i++ {
				if stt.Field(i).Name() == fd.Mutex {
					m := fv.ptrRef(fv.fieldPtr(fv.ptrOf(p), pt.Elem(), fd.Mutex, stt.Field(i).Type()))
					fv.assume(st, eq(sel(fv.heapGet(st, "G|held"), m), "0"))
				}
			}
		}
	}
	// requires
	if fv.k != nil {
		env := fv.contractEnv(st, st, nil)
		for _, cl := range fv.k.Requires {
			t, err := env.evalBool(cl.Text)
			if err != nil {
				return fmt.Errorf("%s: requires %s: %v", fv.name, cl.Label, err)
			}
			fv.assume(st, t)
		}
	}
	fv.findLoops()
	order := fv.blockOrder()
	for _, b := range order {
		if err := fv.doBlock(b); err != nil {
			return err
		}
	}
	fv.lockBalanceAndOwnership()
	fv.flushPending()
	fv.atCallBinding()
	fv.loopBinding()
	return nil
}

// loopBinding: a loop clause that names a loop the body does not have says nothing; that is reported, not passed over.
func (fv *FnV) loopBinding() {
	if fv.k == nil {
		return
	}
	n := len(fv.loops)
	report := func(k int, cl *Clause, what string) {
		if k < n || cl == nil {
			return
		}
		o := fv.emit(nil, "B", fmt.Sprintf("loop%d.%s", k, cl.Label), cl.Props, "false", "the clause `loop "+fmt.Sprint(k)+" "+what+" "+cl.Label+"` names a loop of the current body", fv.fn.Pos())
		o.Static = fmt.Sprintf("fails: the function body has %d loop(s)", n)
		o.Script = ""
	}
	for k, cls := range fv.k.LoopInv {
		for _, cl := range cls {
			report(k, cl, "invariant")
		}
	}
	for k, cl := range fv.k.RangeOver {
		report(k, cl, "ascending-range")
	}
	for k, cl := range fv.k.Exhaustive {
		report(k, cl, "exhaustive")
	}
	for k, cl := range fv.k.Rereads {
		report(k, cl, "rereads")
	}
	for k, cl := range fv.k.Unconditional {
		report(k, cl, "unconditional")
	}
}

type guardedField struct {
	decl *FieldDecl
	base ssa.Value
	st   *types.Struct
	typ  types.Type
}

type unsupported string

// closureRunsUnderParentRecover: a closure that is only ever passed as a call argument by a parent that recovers
// (sort.Slice's less function in Sort) panics into that parent's recover.
func closureRunsUnderParentRecover(fn *ssa.Function) bool {
	p := fn.Parent()
	if p == nil || p.Recover == nil {
		return false
	}
	for _, b := range p.Blocks {
		for _, ins := range b.Instrs {
			mc, ok := ins.(*ssa.MakeClosure)
			if !ok || mc.Fn != fn {
				continue
			}
			for _, ref := range *mc.Referrers() {
				c, isCall := ref.(*ssa.Call)
				if !isCall {
					if _, dbg := ref.(*ssa.DebugRef); dbg {
						continue
					}
					return false
				}
				if c.Common().Value == mc {
					continue
				}
				isArg := false
				for _, a := range c.Common().Args {
					if a == mc {
						isArg = true
					}
				}
				if !isArg {
					return false
				}
			}
		}
	}
	return true
}

func (fv *FnV) findLoops() {
	fn := fv.fn
	for _, b := range fn.Blocks {
		for _, s := range b.Succs {
			if s.Dominates(b) {
				fv.backE[[2]int{b.Index, s.Index}] = true
				li := fv.loops[s]
				if li == nil {
					li = &loopInfo{header: s, body: map[*ssa.BasicBlock]bool{s: true}, phis: map[*ssa.Phi]string{}}
					fv.loops[s] = li
				}
				li.back = append(li.back, b)
				// natural loop body
				stack := []*ssa.BasicBlock{b}
				for len(stack) > 0 {
					x := stack[len(stack)-1]
					stack = stack[:len(stack)-1]
					if li.body[x] {
						continue
					}
					li.body[x] = true
					stack = append(stack, x.Preds...)
				}
			}
		}
	}
	var hs []*ssa.BasicBlock
	for h := range fv.loops {
		hs = append(hs, h)
	}
	sort.Slice(hs, func(i, j int) bool { return hs[i].Index < hs[j].Index })
	for i, h := range hs {
		li := fv.loops[h]
		li.ordinal = i
		ms := newModSet()
		for b := range li.body {
			for _, ins := range b.Instrs {
				fv.g.instrModsX(fv.fn, ins, ms, true)
				// stores to locals of this activation also change inside the loop
				if s, ok := ins.(*ssa.Store); ok {
					fv.localStoreComps(s, ms.comps)
				}
			}
		}
		if fv.k != nil {
			for _, m := range fv.k.LoopMods[i] {
				ms.comps[m] = true
			}
		}
		li.mods = ms.flat()
	}
}

// localStoreComps: like compsOfStoreTarget but including non-escaping locals.
func (fv *FnV) localStoreComps(s *ssa.Store, out map[string]bool) {
	switch a := s.Addr.(type) {
	case *ssa.Alloc:
		t := a.Type().Underlying().(*types.Pointer).Elem()
		if _, isS := types.Unalias(t).Underlying().(*types.Struct); isS {
			fv.g.allFieldComps(t, out)
		} else {
			out[fv.g.compCell(t)] = true
		}
	case *ssa.FieldAddr:
		pt := a.X.Type().Underlying().(*types.Pointer).Elem()
		st := pt.Underlying().(*types.Struct)
		f := st.Field(a.Field)
		if _, isS := types.Unalias(f.Type()).Underlying().(*types.Struct); isS {
			fv.g.allFieldComps(f.Type(), out)
		} else {
			out[fv.g.compField(pt, f.Name())] = true
		}
	case *ssa.IndexAddr:
		if pt, ok := a.X.Type().Underlying().(*types.Pointer); ok {
			out[fv.g.compElem(pt.Elem().Underlying().(*types.Array).Elem())] = true
		}
	}
}

// blockOrder: reverse post-order of the CFG without back edges, reachable from entry.
func (fv *FnV) blockOrder() []*ssa.BasicBlock {
	seen := map[*ssa.BasicBlock]bool{}
	var post []*ssa.BasicBlock
	var dfs func(b *ssa.BasicBlock)
	dfs = func(b *ssa.BasicBlock) {
		seen[b] = true
		for _, s := range b.Succs {
			if fv.backE[[2]int{b.Index, s.Index}] || seen[s] {
				continue
			}
			dfs(s)
		}
		post = append(post, b)
	}
	dfs(fv.fn.Blocks[0])
	for i, j := 0, len(post)-1; i < j; i, j = i+1, j-1 {
		post[i], post[j] = post[j], post[i]
	}
	return post
}

func (fv *FnV) edgeGuard(p, b *ssa.BasicBlock) string {
	st := fv.end[p]
	if st == nil {
		return "false"
	}
	key := [2]int{p.Index, b.Index}
	if g, ok := fv.edgeC[key]; ok {
		return g
	}
	cond := "true"
	if iff, ok := p.Instrs[len(p.Instrs)-1].(*ssa.If); ok {
		c := fv.val(iff.Cond).v.T
		if p.Succs[0] == b && p.Succs[1] == b {
			cond = "true"
		} else if p.Succs[0] == b {
			cond = c
		} else {
			cond = not(c)
		}
	}
	g := fv.c.Define("edge", sBool, and(st.pc, cond))
	fv.edgeC[key] = g
	return g
}

func (fv *FnV) mergeStates(sts []*State, guards []string) *State {
	if len(sts) == 1 {
		s := sts[0].clone()
		s.pc = guards[0]
		return s
	}
	out := &State{heap: map[string]string{}}
	out.pc = fv.c.Define("pc", sBool, or(guards...))
	// base
	same := true
	for _, s := range sts[1:] {
		if s.base != sts[0].base {
			same = false
		}
	}
	if same {
		out.base = sts[0].base
	} else {
		nb := fv.newBase()
		for i, s := range sts {
			nb.parents = append(nb.parents, s.base)
			nb.conds = append(nb.conds, guards[i])
		}
		out.base = nb
	}
	keys := map[string]bool{}
	for _, s := range sts {
		for k := range s.heap {
			keys[k] = true
		}
	}
	var ks []string
	for k := range keys {
		ks = append(ks, k)
	}
	sort.Strings(ks)
	for _, k := range ks {
		vals := make([]string, len(sts))
		allSame := true
		for i, s := range sts {
			vals[i] = fv.heapGet(s, k)
			if vals[i] != vals[0] {
				allSame = false
			}
		}
		if allSame {
			out.heap[k] = vals[0]
			continue
		}
		t := vals[len(vals)-1]
		for i := len(vals) - 2; i >= 0; i-- {
			t = ite(guards[i], vals[i], t)
		}
		sortK := fv.compSort(k)
		if strings.HasPrefix(k, "X|") || strings.HasPrefix(k, "L|") {
			sortK = sBool
		}
		out.heap[k] = fv.c.Define("h!"+k, sortK, t)
	}
	// now
	allSame := true
	for _, s := range sts[1:] {
		if s.now != sts[0].now {
			allSame = false
		}
	}
	if allSame {
		out.now = sts[0].now
	} else {
		t := sts[len(sts)-1].now
		for i := len(sts) - 2; i >= 0; i-- {
			t = ite(guards[i], sts[i].now, t)
		}
		out.now = fv.c.Define("now", sInt, t)
	}
	return out
}

func (fv *FnV) doBlock(b *ssa.BasicBlock) error {
	fv.curBlock = b
	var st *State
	li := fv.loops[b]
	if b.Index == 0 {
		st = fv.entry.clone()
	} else {
		var sts []*State
		var guards []string
		var preds []*ssa.BasicBlock
		for _, p := range b.Preds {
			if fv.backE[[2]int{p.Index, b.Index}] {
				continue
			}
			ps := fv.end[p]
			if ps == nil {
				continue
			}
			g := fv.edgeGuard(p, b)
			if g == "false" {
				continue
			}
			sts = append(sts, ps)
			guards = append(guards, g)
			preds = append(preds, p)
		}
		if len(sts) == 0 {
			return nil // unreachable
		}
		st = fv.mergeStates(sts, guards)
		// phis
		for _, ins := range b.Instrs {
			phi, ok := ins.(*ssa.Phi)
			if !ok {
				continue
			}
			var vals []*SV
			for _, p := range preds {
				for i, pp := range b.Preds {
					if pp == p {
						vals = append(vals, fv.val(phi.Edges[i]))
						break
					}
				}
			}
			fv.vals[phi] = fv.mergeVals(vals, guards, phi.Type(), "phi!"+phi.Name())
		}
	}
	if li != nil {
		if err := fv.loopHead(li, st); err != nil {
			return err
		}
	}
	for _, ins := range b.Instrs {
		if _, ok := ins.(*ssa.Phi); ok {
			continue
		}
		if err := fv.doInstr(st, ins); err != nil {
			return err
		}
	}
	fv.end[b] = st
	// back edges out of this block
	for _, s := range b.Succs {
		if fv.backE[[2]int{b.Index, s.Index}] {
			if err := fv.backEdge(fv.loops[s], b, st); err != nil {
				return err
			}
		}
	}
	return nil
}

func (fv *FnV) mergeVals(vals []*SV, guards []string, t types.Type, name string) *SV {
	if len(vals) == 1 {
		return vals[0]
	}
	// tuples never flow through phis; pointers are merged as refs
	allSame := true
	for _, v := range vals[1:] {
		if v != vals[0] {
			allSame = false
		}
	}
	if allSame {
		return vals[0]
	}
	terms := make([]string, len(vals))
	for i, v := range vals {
		terms[i] = fv.term(v)
	}
	tm := terms[len(terms)-1]
	for i := len(terms) - 2; i >= 0; i-- {
		tm = ite(guards[i], terms[i], tm)
	}
	n := fv.c.Define(name, fv.g.sortOf(t), tm)
	sv := fv.fromTerm(n, t)
	// keep closure identity when every edge carries the same static function
	return sv
}

// val returns the symbolic value of an SSA value (constants, globals, functions on demand).
func (fv *FnV) val(v ssa.Value) *SV {
	if sv, ok := fv.vals[v]; ok {
		return sv
	}
	switch v := v.(type) {
	case *ssa.Const:
		return fv.constVal(v)
	case *ssa.Global:
		name := "g!" + v.Pkg.Pkg.Name() + "." + v.Name()
		if !fv.g.reg.has(name) {
			fv.bornFn()
			fv.g.reg.add(fmt.Sprintf("(declare-const %s Ref)", name), name)
			fv.g.globalNames = append(fv.g.globalNames, name)
			id := len(fv.g.globalNames)
			fv.g.reg.addAxiom(fmt.Sprintf("(assert (and (not (= %s nil!ref)) (= (birth %s) (- 2)) (= (rtag %s) (- %d))))", name, name, name, id), name)
		}
		t := v.Type().Underlying().(*types.Pointer).Elem()
		sv := &SV{v: Val{name, sRef}, typ: v.Type(), ptr: &Ptr{kind: pPlain, ref: name, elemT: t}}
		fv.vals[v] = sv
		return sv
	case *ssa.Function:
		name := quoteSym("fn!" + v.String())
		if !fv.g.reg.has(name) {
			fv.bornFn()
			fv.g.reg.add(fmt.Sprintf("(declare-const %s Ref)", name), name)
			fv.g.reg.addAxiom(fmt.Sprintf("(assert (and (not (= %s nil!ref)) (= (birth %s) (- 2))))", name, name), name)
		}
		sv := &SV{v: Val{name, sRef}, typ: v.Type(), fn: v}
		fv.vals[v] = sv
		return sv
	case *ssa.Builtin:
		return &SV{typ: v.Type()}
	}
	panic(unsupported(fmt.Sprintf("value %s (%T) used before definition in %s", v.Name(), v, fv.name)))
}

// term: SMT term of a value (pointers become refs).
func (fv *FnV) term(sv *SV) string {
	if sv.ptr != nil && sv.v.T == "" {
		return fv.ptrRef(sv.ptr)
	}
	return sv.v.T
}

func (fv *FnV) ptrRef(p *Ptr) string {
	switch p.kind {
	case pPlain:
		return p.ref
	case pField:
		fn := quoteSym("fa!" + structName(p.st) + "!" + p.field)
		if !fv.g.reg.has(fn) {
			fv.g.reg.add(fmt.Sprintf("(declare-fun %s (Ref) Ref)", fn), fn)
		}
		fv.g.abstracted["address of a scalar field escapes ("+structName(p.st)+"."+p.field+")"]++
		return app(fn, p.ref)
	default:
		if !fv.g.reg.has("ea!elem") {
			fv.g.reg.add("(declare-fun ea!elem (Ref (_ BitVec 64)) Ref)", "ea!elem")
		}
		fv.g.abstracted["address of a slice element escapes"]++
		return app("ea!elem", p.ref, p.idx)
	}
}

// fromTerm wraps an SMT term of Go type t.
func (fv *FnV) fromTerm(term string, t types.Type) *SV {
	sv := &SV{v: Val{term, fv.g.sortOf(t)}, typ: t}
	if pt, ok := types.Unalias(t).Underlying().(*types.Pointer); ok {
		sv.ptr = &Ptr{kind: pPlain, ref: term, elemT: pt.Elem()}
	}
	return sv
}

func (fv *FnV) posString(p token.Pos) string {
	if !p.IsValid() {
		p = fv.fn.Pos()
	}
	pos := fv.g.fset.Position(p)
	return fmt.Sprintf("%s:%d", strings.TrimPrefix(pos.Filename, fv.g.repo+"/"), pos.Line)
}

// siteText: normalised source text of the expression enclosing pos, used to
// name zero-annotation obligations independently of line numbers.
func (fv *FnV) siteText(p token.Pos, want string) string {
	if !p.IsValid() {
		return "?"
	}
	pos := fv.g.fset.Position(p)
	var file *ast.File
	for _, pk := range fv.g.pkgs {
		for _, f := range pk.Syntax {
			if fv.g.fset.Position(f.Pos()).Filename == pos.Filename {
				file = f
			}
		}
	}
	if file == nil {
		return "?"
	}
	var best ast.Node
	ast.Inspect(file, func(n ast.Node) bool {
		if n == nil {
			return false
		}
		if n.Pos() > p || n.End() < p {
			return false
		}
		ok := false
		switch x := n.(type) {
		case *ast.IndexExpr:
			ok = (want == "index" || want == "mapstore") && (x.Lbrack == p || x.Pos() == p)
		case *ast.SliceExpr:
			ok = want == "slice" && (x.Lbrack == p || x.Pos() == p)
		case *ast.TypeAssertExpr:
			ok = want == "assert" && (x.Lparen == p || x.Pos() == p || x.X.End() == p)
		case *ast.CallExpr:
			ok = (want == "call" || want == "panic" || want == "make") && (x.Lparen == p || x.Pos() == p)
		case *ast.BinaryExpr:
			ok = (want == "div" || want == "shift" || want == "cmp") && x.OpPos == p
		case *ast.StarExpr:
			ok = want == "nil" && x.Star == p
		case *ast.SelectorExpr:
			ok = want == "nil" && (x.Sel.Pos() == p || x.Pos() == p)
		case *ast.AssignStmt:
			ok = (want == "mapstore" || want == "nil" || want == "index") && x.TokPos == p
		case *ast.UnaryExpr:
			ok = want == "nil" && x.OpPos == p
		}
		if ok {
			best = n
		}
		return true
	})
	if best == nil {
		return fmt.Sprintf("@%s", "expr")
	}
	src := fv.g.src(pos.Filename)
	s, e := fv.g.fset.Position(best.Pos()).Offset, fv.g.fset.Position(best.End()).Offset
	if s < 0 || e > len(src) || s >= e {
		return "?"
	}
	txt := strings.Join(strings.Fields(string(src[s:e])), " ")
	if len(txt) > 60 {
		txt = txt[:60] + "…"
	}
	return txt
}

// emit records an obligation `pc => goal`.
func (fv *FnV) emit(st *State, kind, label string, props []string, goal, clause string, pos token.Pos) *Obligation {
	base := fv.name + "." + kind + "." + label
	fv.names[base]++
	name := base
	if n := fv.names[base]; n > 1 {
		name = fmt.Sprintf("%s#%d", base, n)
	}
	o := &Obligation{Name: name, Kind: kind, Props: props, Func: fv.name, Clause: clause, Pos: fv.posString(pos), fv: fv}
	pc := "true"
	if st != nil {
		pc = st.pc
	}
	o.Script = fv.c.Script([]string{and(pc, not(goal))}, fv.paramTerms)
	o.Inputs = fv.paramTerms
	if goal == "true" {
		o.Static = "holds"
	}
	fv.obs = append(fv.obs, o)
	return o
}

func (fv *FnV) emitCover(st *State, label string, props []string, extra, clause string) {
	name := fv.name + ".V." + label
	fv.names[name]++
	if n := fv.names[name]; n > 1 {
		name = fmt.Sprintf("%s#%d", name, n)
	}
	o := &Obligation{Name: name, Kind: "V", Props: props, Func: fv.name, Clause: clause, ExpectSat: true, fv: fv, Pos: fv.posString(fv.fn.Pos())}
	o.Script = fv.c.Script([]string{and(st.pc, extra)}, nil)
	fv.obs = append(fv.obs, o)
}

func (fv *FnV) safetyProps() []string {
	if fv.k != nil {
		return fv.k.SafetyTags
	}
	return nil
}

func (fv *FnV) safetyPropsAt(label string) []string {
	ps := append([]string{}, fv.safetyProps()...)
	if fv.k != nil {
		for site, props := range fv.k.SafetyAt {
			if strings.Contains(label, site) {
				ps = append(ps, props...)
			}
		}
	}
	return ps
}

// safety obligation at a site that can panic
func (fv *FnV) safety(st *State, what string, cond string, pos token.Pos) {
	if cond == "true" {
		return
	}
	label := what + ":" + fv.siteText(pos, strings.SplitN(what, "-", 2)[0])
	o := fv.emit(st, "S", label, fv.safetyPropsAt(label), cond, "no panic: "+what, pos)
	o.Contained = fv.hasRecover
	// past this point the condition holds (otherwise control left through a panic)
	fv.assume(st, cond)
}

// atCallBinding: an at-call assertion that met no call site says nothing; that is reported, not passed over.
func (fv *FnV) atCallBinding() {
	if fv.k == nil {
		return
	}
	var keys []string
	for k := range fv.k.CallAsserts {
		keys = append(keys, k)
	}
	sort.Strings(keys)
	for _, key := range keys {
		for _, cl := range fv.k.CallAsserts[key] {
			if fv.atCallHit[cl] {
				continue
			}
			o := fv.emit(nil, "B", "at-call."+cl.Label, cl.Props, "false", "the assertion `at-call "+key+" assert "+cl.Label+"` applies to at least one call site of the current body", fv.fn.Pos())
			o.Static = "fails: no call site of " + key + " in the function body"
			o.Script = ""
		}
	}
}
