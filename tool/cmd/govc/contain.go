package main

// Panic containment (C10): a site that can panic is *contained* when every way of reaching it from the API passes
// through a frame that recovers; a panic in a goroutine started with `go` is never contained by the spawner.

import (
	"golang.org/x/tools/go/ssa"
)

// callsRecover: fn itself calls the builtin recover.
func callsRecover(fn *ssa.Function) bool {
	for _, b := range fn.Blocks {
		for _, ins := range b.Instrs {
			if c, ok := ins.(*ssa.Call); ok {
				if bi, ok := c.Common().Value.(*ssa.Builtin); ok && bi.Name() == "recover" {
					return true
				}
			}
		}
	}
	return false
}

// deferredRecoverers: the functions fn defers that call recover.
func deferredRecoverers(fn *ssa.Function) []*ssa.Function {
	var out []*ssa.Function
	for _, b := range fn.Blocks {
		for _, ins := range b.Instrs {
			d, ok := ins.(*ssa.Defer)
			if !ok {
				continue
			}
			var t *ssa.Function
			switch v := d.Common().Value.(type) {
			case *ssa.Function:
				t = v
			case *ssa.MakeClosure:
				t = v.Fn.(*ssa.Function)
			}
			if t != nil && t.Blocks != nil && callsRecover(t) {
				out = append(out, t)
			}
		}
	}
	return out
}

func fnRecovers(fn *ssa.Function) bool { return len(deferredRecoverers(fn)) > 0 }

// computeUncontained marks the functions in which a panic can escape to the caller of the API or end the process.
func (g *Gen) computeUncontained() {
	unc := map[*ssa.Function]string{}
	var work []*ssa.Function
	mark := func(fn *ssa.Function, why string) {
		if fn == nil || fn.Blocks == nil {
			return
		}
		if _, in := g.modsets[fn]; !in {
			return // not a function of the module
		}
		if _, done := unc[fn]; done {
			return
		}
		unc[fn] = why
		work = append(work, fn)
	}
	// 1. the crash roots that do not recover themselves
	for _, name := range g.fnames {
		fn := g.funcs[name]
		if g.crashRoots[name] && !fnRecovers(fn) {
			mark(fn, "API root without a recover")
		}
		// 2. goroutine bodies
		for _, b := range fn.Blocks {
			for _, ins := range b.Instrs {
				if gi, ok := ins.(*ssa.Go); ok {
					var t *ssa.Function
					switch v := gi.Common().Value.(type) {
					case *ssa.Function:
						t = v
					case *ssa.MakeClosure:
						t = v.Fn.(*ssa.Function)
					}
					if t != nil && !fnRecovers(t) {
						mark(t, "goroutine started by "+name+" without a recover")
					}
				}
			}
		}
		// 3. the recover handlers themselves: a panic inside one escapes
		for _, r := range deferredRecoverers(fn) {
			mark(r, "recover handler of "+name)
		}
	}
	for len(work) > 0 {
		fn := work[len(work)-1]
		work = work[:len(work)-1]
		why := "called (without an intervening recover) from " + canonName(fn)
		for _, b := range fn.Blocks {
			for _, ins := range b.Instrs {
				switch x := ins.(type) {
				case *ssa.MakeClosure:
					t := x.Fn.(*ssa.Function)
					if !fnRecovers(t) {
						mark(t, "closure created by "+canonName(fn))
					}
				case ssa.CallInstruction:
					if _, isGo := x.(*ssa.Go); isGo {
						continue
					}
					cc := x.Common()
					if cc.IsInvoke() {
						continue
					}
					if t := cc.StaticCallee(); t != nil {
						if !fnRecovers(t) {
							mark(t, why)
						}
						continue
					}
					if _, isB := cc.Value.(*ssa.Builtin); isB {
						continue
					}
					// dynamic call: every module function of that signature whose address is taken
					for _, t := range g.dynTargetsOf(cc.Value) {
						if !fnRecovers(t) {
							mark(t, why+" (through a function value)")
						}
					}
				}
			}
		}
	}
	g.uncontained = unc
}
