package main

// Panic containment (C10): a site that can panic is *contained* when every way of reaching it from the API passes
// through a frame that recovers; a panic in a goroutine started with `go` is never contained by the spawner.

import (
	"golang.org/x/tools/go/ssa"
)

// callsRecover: fn itself calls the builtin recover.
func callsRecover(fn *ssa.Function) bool {
	for _, b := range fn.Blocks {
		for _, ins := range b.Instrs {
			if c, ok := ins.(*ssa.Call); ok {
				if bi, ok := c.Common().Value.(*ssa.Builtin); ok && bi.Name() == "recover" {
					return true
				}
			}
		}
	}
	return false
}

// deferredRecoverers: the functions fn defers that call recover.
func deferredRecoverers(fn *ssa.Function) []*ssa.Function {
	var out []*ssa.Function
	for _, b := range fn.Blocks {
		for _, ins := range b.Instrs {
			d, ok := ins.(*ssa.Defer)
			if !ok {
				continue
			}
			var t *ssa.Function
			switch v := d.Common().Value.(type) {
			case *ssa.Function:
				t = v
			case *ssa.MakeClosure:
				t = v.Fn.(*ssa.Function)
			}
			if t != nil && t.Blocks != nil && callsRecover(t) {
				out = append(out, t)
			}
		}
	}
	return out
}

func fnRecovers(fn *ssa.Function) bool { return len(deferredRecoverers(fn)) > 0 }

// computeUncontained marks the functions in which a panic can escape to the caller of the API or end the process.
func (g *Gen) computeUncontained() {
	unc := map[*ssa.Function]string{}
	var work []*ssa.Function
	mark := func(fn *ssa.Function, why string) {
		if fn == nil || fn.Blocks == nil {
			return
		}
		if _, in := g.modsets[fn]; !in {
			return // not a function of the module
		}
		if _, done := unc[fn]; done {
			return
		}
		unc[fn] = why
		work = append(work, fn)
	}
	// 1. the crash roots that do not recover themselves
	for _, name := range g.fnames {
		fn := g.funcs[name]
		if g.crashRoots[name] && !fnRecovers(fn) {
			mark(fn, "API root without a recover")
		}
		// 2. goroutine bodies
		for _, b := range fn.Blocks {
			for _, ins := range b.Instrs {
				if gi, ok := ins.(*ssa.Go); ok {
					var t *ssa.Function
					switch v := gi.Common().Value.(type) {
					case *ssa.Function:
						t = v
					case *ssa.MakeClosure:
						t = v.Fn.(*ssa.Function)
					}
					if t != nil && !fnRecovers(t) {
						mark(t, "goroutine started by "+name+" without a recover")
					}
				}
			}
		}
		// 3. the recover handlers themselves: a panic inside one escapes
		for _, r := range deferredRecoverers(fn) {
			mark(r, "recover handler of "+name)
		}
	}
	for len(work) > 0 {
		fn := work[len(work)-1]
		work = work[:len(work)-1]
		why := "called (without an intervening recover) from " + canonName(fn)
		for _, b := range fn.Blocks {
			for _, ins := range b.Instrs {
				switch x := ins.(type) {
				case *ssa.MakeClosure:
					t := x.Fn.(*ssa.Function)
					if !fnRecovers(t) {
						mark(t, "closure created by "+canonName(fn))
					}
				case ssa.CallInstruction:
					if _, isGo := x.(*ssa.Go); isGo {
						continue
					}
					cc := x.Common()
					if cc.IsInvoke() {
						continue
					}
					if t := cc.StaticCallee(); t != nil {
						if !fnRecovers(t) {
							mark(t, why)
						}
						continue
					}
					if _, isB := cc.Value.(*ssa.Builtin); isB {
						continue
					}
					// dynamic call: every module function of that signature whose address is taken
					for _, t := range g.dynTargetsOf(cc.Value) {
						if !fnRecovers(t) {
							mark(t, why+" (through a function value)")
						}
					}
				}
			}
		}
	}
	g.uncontained = unc
}

// recoverObligations (C10): each deferred recover handler calls recover() on every path through it, and the function that
// defers it registers it before executing anything that can panic.
func (g *Gen) recoverObligations(prop string) []*Obligation {
	var out []*Obligation
	seenH := map[*ssa.Function]bool{}
	for _, name := range g.fnames {
		fn := g.funcs[name]
		hs := deferredRecoverers(fn)
		if len(hs) == 0 {
			continue
		}
		// (a) registration at the very beginning of fn
		o := &Obligation{Name: name + ".R.defer-first", Kind: "R", Props: []string{prop}, Func: name,
			Clause: "the recover handler is deferred before any operation of " + name + " that can panic", Pos: g.fset.Position(fn.Pos()).String()}
		ok, why := true, ""
		seenDefer := false
		for _, ins := range fn.Blocks[0].Instrs {
			if d, isD := ins.(*ssa.Defer); isD {
				var t *ssa.Function
				switch v := d.Common().Value.(type) {
				case *ssa.Function:
					t = v
				case *ssa.MakeClosure:
					t = v.Fn.(*ssa.Function)
				}
				if t != nil && callsRecover(t) {
					seenDefer = true
					break
				}
				continue
			}
			switch x := ins.(type) {
			case *ssa.Alloc, *ssa.Store, *ssa.MakeClosure, *ssa.DebugRef, *ssa.FieldAddr, *ssa.UnOp, *ssa.MakeInterface, *ssa.ChangeType, *ssa.Phi:
			default:
				ok, why = false, "an instruction that can panic precedes the defer: "+x.String()
			}
			if !ok {
				break
			}
		}
		if ok && !seenDefer {
			ok, why = false, "the handler is not deferred in the entry block"
		}
		if ok {
			o.Static = "holds"
		} else {
			o.Static, o.Result = "fails: "+why, "failed"
		}
		out = append(out, o)
		// (b) the handler itself
		for _, h := range hs {
			if seenH[h] {
				continue
			}
			seenH[h] = true
			hn := canonName(h)
			o := &Obligation{Name: hn + ".R.recovers-on-every-path", Kind: "R", Props: []string{prop}, Func: hn,
				Clause: "every path through the handler calls recover() (a handler that returns early leaves the panic in flight)", Pos: g.fset.Position(h.Pos()).String()}
			var rb *ssa.BasicBlock
			for _, b := range h.Blocks {
				for _, ins := range b.Instrs {
					if c, isC := ins.(*ssa.Call); isC {
						if bi, isB := c.Common().Value.(*ssa.Builtin); isB && bi.Name() == "recover" {
							rb = b
						}
					}
				}
			}
			good := rb != nil
			if good {
				for _, b := range h.Blocks {
					if _, isRet := b.Instrs[len(b.Instrs)-1].(*ssa.Return); isRet && !rb.Dominates(b) {
						good = false
					}
				}
			}
			// nothing that can panic before the recover call
			if good {
				for _, b := range h.Blocks {
					if b != rb && !b.Dominates(rb) {
						continue
					}
					for _, ins := range b.Instrs {
						if c, isC := ins.(*ssa.Call); isC {
							if bi, isB := c.Common().Value.(*ssa.Builtin); isB && bi.Name() == "recover" {
								break
							}
							good = false
						}
					}
				}
			}
			if good {
				o.Static = "holds"
			} else {
				o.Static, o.Result = "fails: some path through "+hn+" returns without calling recover(), or calls something before it", "failed"
			}
			out = append(out, o)
		}
	}
	return out
}
