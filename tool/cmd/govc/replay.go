package main

// Replay of a refuting model against the real code (go test -overlay).

func tryReplay(g *Gen, o *Obligation, rf *ReplayFile) {
	replayModel(g, o, rf)
}
