package main

// Instruction semantics: SSA -> SMT.

import (
	"fmt"
	"strings"
	"go/constant"
	"go/token"
	"go/types"
	"math"

	"golang.org/x/tools/go/ssa"
)

func (fv *FnV) constVal(c *ssa.Const) *SV {
	t := c.Type()
	g := fv.g
	if c.Value == nil {
		// zero value / nil
		return fv.fromTerm(g.zero(t), t)
	}
	s := g.sortOf(t)
	switch {
	case s == sBool:
		if constant.BoolVal(c.Value) {
			return &SV{v: Val{"true", sBool}, typ: t}
		}
		return &SV{v: Val{"false", sBool}, typ: t}
	case isBV(s):
		w := bvWidth(s)
		if i, ok := constant.Int64Val(constant.ToInt(c.Value)); ok {
			return &SV{v: Val{bvLit(i, w), s}, typ: t}
		}
		u, _ := constant.Uint64Val(constant.ToInt(c.Value))
		return &SV{v: Val{bvULit(u, w), s}, typ: t}
	case s == sF64:
		f, _ := constant.Float64Val(c.Value)
		return &SV{v: Val{f64Lit(f), s}, typ: t}
	case s == sF32:
		f, _ := constant.Float32Val(c.Value)
		return &SV{v: Val{f32Lit(f), s}, typ: t}
	case s == sStr:
		return &SV{v: Val{g.strLit(constant.StringVal(c.Value)), s}, typ: t}
	}
	panic(unsupported("constant of type " + t.String()))
}

func f64Lit(f float64) string {
	b := math.Float64bits(f)
	return fmt.Sprintf("(fp #b%01b #b%011b #x%013x)", b>>63, (b>>52)&0x7ff, b&0xfffffffffffff)
}

func f32Lit(f float32) string {
	b := math.Float32bits(f)
	return fmt.Sprintf("(fp #b%01b #b%08b #b%023b)", b>>31, (b>>23)&0xff, b&0x7fffff)
}

// ---- pointers -------------------------------------------------------------

func (fv *FnV) ptrOf(v ssa.Value) *Ptr {
	sv := fv.val(v)
	if sv.ptr != nil {
		return sv.ptr
	}
	pt := v.Type().Underlying().(*types.Pointer)
	return &Ptr{kind: pPlain, ref: sv.v.T, elemT: pt.Elem()}
}

// subAddr: address of a struct-typed field embedded in the struct at ref.
func (fv *FnV) subAddr(st types.Type, field string, ref string) string {
	fn := quoteSym("sub!" + structName(st) + "!" + field)
	if !fv.g.reg.has(fn) {
		fv.bornFn()
		fv.g.subCount++
		id := fv.g.subCount
		fv.g.reg.add(fmt.Sprintf("(declare-fun %s (Ref) Ref)", fn), fn)
		inv := quoteSym("subinv!" + structName(st) + "!" + field)
		fv.g.reg.add(fmt.Sprintf("(declare-fun %s (Ref) Ref)", inv), inv)
		fv.g.subIDs[fn] = id
	}
	t := app(fn, ref)
	if fv.subSeen == nil {
		fv.subSeen = map[string]bool{}
	}
	if !fv.subSeen[t] {
		fv.subSeen[t] = true
		inv := quoteSym("subinv!" + structName(st) + "!" + field)
		fact := and(eq(app(inv, t), ref), eq(app("rtag", t), fmt.Sprint(fv.g.subIDs[fn])), eq(app("birth", t), app("birth", ref)), not(eq(t, "nil!ref")))
		fv.c.AddFact("", fact)
	}
	return t
}

func isStruct(t types.Type) (*types.Struct, bool) {
	st, ok := types.Unalias(t).Underlying().(*types.Struct)
	return st, ok
}

// loadAt reads a value of type t at pointer p in state st.
func (fv *FnV) loadAt(st *State, p *Ptr, t types.Type) string {
	g := fv.g
	switch p.kind {
	case pPlain:
		if s, ok := isStruct(t); ok {
			if s.NumFields() == 0 {
				return g.structMk(t)
			}
			var fs []string
			for i := 0; i < s.NumFields(); i++ {
				f := s.Field(i)
				fs = append(fs, fv.loadAt(st, fv.fieldPtr(p, t, f.Name(), f.Type()), f.Type()))
			}
			return app(g.structMk(t), fs...)
		}
		if at, ok := types.Unalias(t).Underlying().(*types.Array); ok {
			return sel(fv.heapGet(st, g.compElem(at.Elem())), p.ref)
		}
		return sel(fv.heapGet(st, g.compCell(t)), p.ref)
	case pField:
		return sel(fv.heapGet(st, g.compField(p.st, p.field)), p.ref)
	default:
		v := sel(sel(fv.heapGet(st, g.compElem(p.elemT)), p.ref), p.idx)
		for _, s := range p.path {
			v = app(g.structSel(s.st, s.field), v)
		}
		return v
	}
}

func (fv *FnV) fieldPtr(p *Ptr, st types.Type, field string, ft types.Type) *Ptr {
	switch p.kind {
	case pPlain:
		if _, ok := isStruct(ft); ok {
			return &Ptr{kind: pPlain, ref: fv.subAddr(st, field, p.ref), elemT: ft}
		}
		return &Ptr{kind: pField, ref: p.ref, st: st, field: field, alloc: p.alloc}
	case pElem:
		np := *p
		np.path = append(append([]pathStep{}, p.path...), pathStep{st, field, ft})
		return &np
	}
	panic(unsupported("field of a scalar field pointer"))
}

// storeAt writes v (of type t) through p.
func (fv *FnV) storeAt(st *State, p *Ptr, t types.Type, v string, pos token.Pos) {
	g := fv.g
	switch p.kind {
	case pPlain:
		if s, ok := isStruct(t); ok {
			for i := 0; i < s.NumFields(); i++ {
				f := s.Field(i)
				fv.storeAt(st, fv.fieldPtr(p, t, f.Name(), f.Type()), f.Type(), app(g.structSel(t, f.Name()), v), pos)
			}
			return
		}
		if at, ok := types.Unalias(t).Underlying().(*types.Array); ok {
			k := g.compElem(at.Elem())
			fv.frameWrite(st, k, p.ref, pos)
			fv.heapSet(st, k, sto(fv.heapGet(st, k), p.ref, v))
			return
		}
		k := g.compCell(t)
		fv.frameWrite(st, k, p.ref, pos)
		fv.heapSet(st, k, sto(fv.heapGet(st, k), p.ref, v))
	case pField:
		k := g.compField(p.st, p.field)
		fv.frameWrite(st, k, p.ref, pos)
		fv.heapSet(st, k, sto(fv.heapGet(st, k), p.ref, v))
	default:
		fv.publishedWrite(st, p.ref, pos)
		k := g.compElem(p.elemT)
		h := fv.heapGet(st, k)
		old := sel(sel(h, p.ref), p.idx)
		nv := fv.updatePath(old, p.path, v)
		fv.frameWrite(st, k, p.ref, pos)
		fv.heapSet(st, k, sto(h, p.ref, sto(sel(h, p.ref), p.idx, nv)))
	}
}

func (fv *FnV) updatePath(old string, path []pathStep, v string) string {
	if len(path) == 0 {
		return v
	}
	s := path[0]
	stt, _ := isStruct(s.st)
	var fs []string
	for i := 0; i < stt.NumFields(); i++ {
		f := stt.Field(i)
		cur := app(fv.g.structSel(s.st, f.Name()), old)
		if f.Name() == s.field {
			cur = fv.updatePath(cur, path[1:], v)
		}
		fs = append(fs, cur)
	}
	return app(fv.g.structMk(s.st), fs...)
}

// allocate a fresh object; returns its ref.
func (fv *FnV) freshRef(st *State, hint string) string {
	fv.bornFn()
	r := fv.c.Fresh(hint, sRef)
	fv.assume(st, and(eq(app("birth", r), st.now), eq(app("rtag", r), "0"), not(eq(r, "nil!ref"))))
	st.now = fv.c.Define("now", sInt, "(+ "+st.now+" 1)")
	return r
}

func (fv *FnV) zeroInit(st *State, p *Ptr, t types.Type) {
	g := fv.g
	if p.kind == pPlain {
		switch t.String() {
		case "sync.Mutex", "sync.RWMutex":
			fv.heapSet(st, "G|held", sto(fv.heapGet(st, "G|held"), p.ref, "0"))
		case "sync.WaitGroup":
			fv.heapSet(st, "G|wg", sto(fv.heapGet(st, "G|wg"), p.ref, "0"))
		}
	}
	if s, ok := isStruct(t); ok {
		for i := 0; i < s.NumFields(); i++ {
			f := s.Field(i)
			fv.zeroInit(st, fv.fieldPtr(p, t, f.Name(), f.Type()), f.Type())
		}
		return
	}
	var k string
	switch p.kind {
	case pField:
		k = g.compField(p.st, p.field)
	default:
		if at, ok := types.Unalias(t).Underlying().(*types.Array); ok {
			k = g.compElem(at.Elem())
		} else {
			k = g.compCell(t)
		}
	}
	fv.heapSet(st, k, sto(fv.heapGet(st, k), p.ref, g.zero(t)))
}

// ---- instruction dispatch ---------------------------------------------------

func (fv *FnV) doInstr(st *State, ins ssa.Instruction) error {
	g := fv.g
	switch ins := ins.(type) {
	case *ssa.DebugRef:
		return nil
	case *ssa.Alloc:
		t := ins.Type().Underlying().(*types.Pointer).Elem()
		r := fv.freshRef(st, "new!"+ins.Name())
		p := &Ptr{kind: pPlain, ref: r, elemT: t, alloc: ins}
		fv.zeroInit(st, p, t)
		if strings.HasSuffix(t.String(), "bytes.Buffer") {
			fv.heapSet(st, "B|buf", sto(fv.heapGet(st, "B|buf"), r, "str!empty"))
		}
		fv.vals[ins] = &SV{v: Val{r, sRef}, ptr: p, typ: ins.Type()}
	case *ssa.FieldAddr:
		base := fv.ptrOf(ins.X)
		pt := ins.X.Type().Underlying().(*types.Pointer).Elem()
		stt := pt.Underlying().(*types.Struct)
		f := stt.Field(ins.Field)
		if base.kind == pPlain && base.alloc == nil {
			fv.safety(st, "nil", not(eq(base.ref, "nil!ref")), ins.Pos())
		}
		np := fv.fieldPtr(base, pt, f.Name(), f.Type())
		fv.vals[ins] = &SV{ptr: np, typ: ins.Type()}
		if np.kind == pPlain {
			fv.vals[ins].v = Val{np.ref, sRef}
		}
	case *ssa.Field:
		x := fv.val(ins.X)
		stt := ins.X.Type().Underlying().(*types.Struct)
		f := stt.Field(ins.Field)
		fv.vals[ins] = fv.fromTerm(app(g.structSel(ins.X.Type(), f.Name()), x.v.T), f.Type())
	case *ssa.IndexAddr:
		idx := fv.idx64(fv.val(ins.Index), ins.Index.Type())
		switch xt := ins.X.Type().Underlying().(type) {
		case *types.Slice:
			s := fv.val(ins.X).v.T
			fv.safety(st, "index", and("(bvsle #x0000000000000000 "+idx+")", "(bvslt "+idx+" (s!len "+s+"))"), ins.Pos())
			abs := fv.c.Define("eidx", sBV64, "(bvadd (s!off "+s+") "+idx+")")
			fv.vals[ins] = &SV{ptr: &Ptr{kind: pElem, ref: "(s!ref " + s + ")", idx: abs, elemT: xt.Elem()}, typ: ins.Type()}
		case *types.Pointer:
			at := xt.Elem().Underlying().(*types.Array)
			base := fv.ptrOf(ins.X)
			fv.safety(st, "index", and("(bvsle #x0000000000000000 "+idx+")", "(bvslt "+idx+" "+bvLit(at.Len(), 64)+")"), ins.Pos())
			fv.vals[ins] = &SV{ptr: &Ptr{kind: pElem, ref: base.ref, idx: idx, elemT: at.Elem()}, typ: ins.Type()}
		default:
			panic(unsupported("IndexAddr on " + ins.X.Type().String()))
		}
	case *ssa.Index:
		idx := fv.idx64(fv.val(ins.Index), ins.Index.Type())
		x := fv.val(ins.X).v.T
		switch xt := ins.X.Type().Underlying().(type) {
		case *types.Basic: // string
			fv.safety(st, "index", and("(bvsle #x0000000000000000 "+idx+")", "(bvslt "+idx+" (str!len "+x+"))"), ins.Pos())
			fv.vals[ins] = &SV{v: Val{app("str!at", x, idx), bvSort(8)}, typ: ins.Type()}
		case *types.Array:
			fv.safety(st, "index", and("(bvsle #x0000000000000000 "+idx+")", "(bvslt "+idx+" "+bvLit(xt.Len(), 64)+")"), ins.Pos())
			fv.vals[ins] = fv.fromTerm(sel(x, idx), xt.Elem())
		default:
			panic(unsupported("Index on " + ins.X.Type().String()))
		}
	case *ssa.UnOp:
		return fv.doUnOp(st, ins)
	case *ssa.BinOp:
		return fv.doBinOp(st, ins)
	case *ssa.Store:
		p := fv.ptrOf(ins.Addr)
		if p.kind == pPlain && p.alloc == nil {
			fv.safety(st, "nil", not(eq(p.ref, "nil!ref")), ins.Pos())
		}
		fv.checkLent(ins.Addr, ins.Pos(), "write")
		fv.guardedAccess(st, ins.Addr, ins.Pos(), "write")
		if ia, ok := ins.Addr.(*ssa.IndexAddr); ok {
			fv.sharedStorageWrite(st, ia.X, ins.Pos(), "an element store")
		}
		fv.storeAt(st, p, ins.Val.Type(), fv.term(fv.val(ins.Val)), ins.Pos())
	case *ssa.MakeSlice:
		et := ins.Type().Underlying().(*types.Slice).Elem()
		ln := fv.idx64(fv.val(ins.Len), ins.Len.Type())
		cp := fv.idx64(fv.val(ins.Cap), ins.Cap.Type())
		fv.safety(st, "make", and("(bvsle #x0000000000000000 "+ln+")", "(bvsle "+ln+" "+cp+")", "(bvsle "+cp+" #x0000010000000000)"), ins.Pos())
		r := fv.freshRef(st, "mk!"+ins.Name())
		k := g.compElem(et)
		fv.heapSet(st, k, sto(fv.heapGet(st, k), r, fmt.Sprintf("((as const (Array (_ BitVec 64) %s)) %s)", g.sortOf(et), g.zero(et))))
		fv.vals[ins] = fv.fromTerm(fv.c.Define(ins.Name(), sSlice, app("mk!slice", r, bvLit(0, 64), ln, cp)), ins.Type())
	case *ssa.MakeMap:
		mt := ins.Type().Underlying().(*types.Map)
		r := fv.freshRef(st, "mkmap!"+ins.Name())
		dk := g.compMapDom(mt)
		fv.heapSet(st, dk, sto(fv.heapGet(st, dk), r, fmt.Sprintf("((as const (Array %s Bool)) false)", g.sortOf(mt.Key()))))
		fv.vals[ins] = fv.fromTerm(r, ins.Type())
	case *ssa.MakeInterface:
		x := fv.val(ins.X)
		fv.vals[ins] = &SV{v: Val{fv.c.Define(ins.Name(), sAny, g.box(fv.c, fv.term(x), ins.X.Type())), sAny}, typ: ins.Type()}
	case *ssa.MakeClosure:
		r := fv.freshRef(st, "clo!"+ins.Name())
		fv.vals[ins] = &SV{v: Val{r, sRef}, clo: ins, typ: ins.Type()}
		// a closure that captures a cell makes that cell reachable from elsewhere
	case *ssa.ChangeType:
		x := fv.val(ins.X)
		nv := *x
		nv.typ = ins.Type()
		fv.vals[ins] = &nv
	case *ssa.ChangeInterface:
		fv.vals[ins] = &SV{v: fv.val(ins.X).v, typ: ins.Type()}
	case *ssa.Convert:
		fv.vals[ins] = fv.convert(st, fv.val(ins.X), ins.X.Type(), ins.Type())
	case *ssa.MultiConvert:
		fv.vals[ins] = fv.convert(st, fv.val(ins.X), ins.X.Type(), ins.Type())
	case *ssa.TypeAssert:
		x := fv.val(ins.X).v.T
		is := g.isType(x, ins.AssertedType)
		if _, isFn := types.Unalias(ins.AssertedType).Underlying().(*types.Signature); isFn {
			// assumption: a function value stored in a document (a CTE thunk) or handed over as `any` is not a nil func
			fv.assume(st, implies(is, not(eq(g.unbox(fv.c, x, ins.AssertedType), "nil!ref"))))
			fv.g.abstracted["assumed: function values held in interface values are non-nil"]++
		}
		if ins.CommaOk {
			ok := fv.c.Define(ins.Name()+"!ok", sBool, is)
			v := ite(ok, g.unbox(fv.c, x, ins.AssertedType), g.zero(ins.AssertedType))
			vv := fv.fromTerm(fv.c.Define(ins.Name()+"!v", g.sortOf(ins.AssertedType), v), ins.AssertedType)
			fv.vals[ins] = &SV{tup: []SV{*vv, {v: Val{ok, sBool}, typ: types.Typ[types.Bool]}}, typ: ins.Type()}
		} else {
			fv.safety(st, "assert", is, ins.Pos())
			fv.vals[ins] = fv.fromTerm(fv.c.Define(ins.Name(), g.sortOf(ins.AssertedType), g.unbox(fv.c, x, ins.AssertedType)), ins.AssertedType)
		}
	case *ssa.Extract:
		t := fv.val(ins.Tuple)
		if ins.Index >= len(t.tup) {
			panic(unsupported("extract from non-tuple"))
		}
		e := t.tup[ins.Index]
		fv.vals[ins] = &e
	case *ssa.Slice:
		fv.markSharedStorage(ins, ins.X)
		return fv.doSlice(st, ins)
	case *ssa.Lookup:
		return fv.doLookup(st, ins)
	case *ssa.MapUpdate:
		mt := ins.Map.Type().Underlying().(*types.Map)
		m := fv.val(ins.Map).v.T
		fv.safety(st, "mapstore", not(eq(m, "nil!ref")), ins.Pos())
		fv.guardedAccess(st, ins.Map, ins.Pos(), "write")
		if fv.k != nil {
			site := fv.siteText(ins.Pos(), "mapstore")
			var cls []*Clause
			for key, list := range fv.k.CallAsserts {
				if key == "mapstore" || (strings.HasPrefix(key, "mapstore:") && strings.Contains(site, strings.TrimPrefix(key, "mapstore:"))) {
					cls = append(cls, list...)
				}
				if li := fv.innermostLoop(); li != nil && key == fmt.Sprintf("mapstore@loop%d", li.ordinal) {
					cls = append(cls, list...)
				}
			}
			for _, cl := range cls {
				fv.hitAtCall(cl)
				env := fv.contractEnv(st, fv.entry, nil)
				if li := fv.innermostLoop(); li != nil {
					env.loop = li
				}
				env.vars["stored"] = CVal{T: fv.term(fv.val(ins.Value)), S: fv.g.sortOf(mt.Elem()), Typ: mt.Elem()}
				env.vars["key"] = CVal{T: fv.term(fv.val(ins.Key)), S: fv.g.sortOf(mt.Key()), Typ: mt.Key()}
				env.vars["target"] = CVal{T: m, S: sRef, Typ: ins.Map.Type()}
				t, err := env.evalBool(cl.Text)
				if err != nil {
					return fmt.Errorf("%s: at-call mapstore assert %s: %v", fv.name, cl.Label, err)
				}
				fv.emit(st, "A", "mapstore."+cl.Label+":"+fv.siteText(ins.Pos(), "mapstore"), cl.Props, t, "holds for the map entry stored here: "+cl.Text, ins.Pos())
			}
		}
		fv.notePublished(ins)
		fv.curWriteTarget = ins.Map
		fv.mapStore(st, mt, m, fv.term(fv.val(ins.Key)), fv.term(fv.val(ins.Value)), ins.Pos())
		fv.curWriteTarget = nil
	case *ssa.Range:
		fv.vals[ins] = &SV{v: fv.val(ins.X).v, typ: ins.X.Type()}
	case *ssa.Next:
		return fv.doNext(st, ins)
	case *ssa.Call:
		res, err := fv.doCall(st, ins, ins.Common(), ins.Pos())
		if err != nil {
			return err
		}
		fv.vals[ins] = res
	case *ssa.Go:
		return fv.doGo(st, ins)
	case *ssa.Defer:
		fv.defers = append(fv.defers, ins)
	case *ssa.RunDefers:
		for i := len(fv.defers) - 1; i >= 0; i-- {
			d := fv.defers[i]
			if !d.Block().Dominates(ins.Block()) {
				if !blockReaches(d.Block(), ins.Block()) {
					continue // registered on other paths only
				}
				panic(unsupported("conditionally registered defer"))
			}
			if _, err := fv.doCall(st, d, d.Common(), d.Pos()); err != nil {
				return err
			}
		}
	case *ssa.Panic:
		if fv.hasRecover {
			fv.note("explicit panic at %s is inside a recovering frame", fv.posString(ins.Pos()))
		} else {
			o := fv.emit(st, "S", "panic:"+fv.siteText(ins.Pos(), "panic"), fv.safetyProps(), "false", "explicit panic is unreachable", ins.Pos())
			o.Contained = false
		}
		st.pc = "false"
	case *ssa.If, *ssa.Jump:
		return nil
	case *ssa.Return:
		return fv.doReturn(st, ins)
	case *ssa.MakeChan:
		r := fv.freshRef(st, "chan")
		fv.vals[ins] = &SV{v: Val{r, sRef}, typ: ins.Type()}
	case *ssa.Send:
		fv.channelOp(st, "send on "+fv.siteText(ins.Pos(), "send"), ins.Pos())
	case *ssa.Select:
		fv.channelOp(st, "select", ins.Pos())
		fv.vals[ins] = fv.freshTuple(st, ins.Type(), "select")
	default:
		panic(unsupported(fmt.Sprintf("instruction %T", ins)))
	}
	return nil
}

// idx64 widens an integer index to 64 bits.
func (fv *FnV) idx64(v *SV, t types.Type) string {
	w := bvWidth(v.v.S)
	if w == 64 || w == 0 {
		return v.v.T
	}
	if isSigned(t) {
		return fmt.Sprintf("((_ sign_extend %d) %s)", 64-w, v.v.T)
	}
	return fmt.Sprintf("((_ zero_extend %d) %s)", 64-w, v.v.T)
}

func (fv *FnV) doUnOp(st *State, ins *ssa.UnOp) error {
	g := fv.g
	switch ins.Op {
	case token.MUL: // load
		p := fv.ptrOf(ins.X)
		if p.kind == pPlain && p.alloc == nil {
			fv.safety(st, "nil", not(eq(p.ref, "nil!ref")), ins.Pos())
		}
		fv.checkLent(ins.X, ins.Pos(), "read")
		fv.guardedAccess(st, ins.X, ins.Pos(), "read")
		t := ins.Type()
		v := fv.c.Define(ins.Name(), g.sortOf(t), fv.loadAt(st, p, t))
		fv.assume(st, fv.wf(v, t, st.now))
		// assumption A-AST: the parser never puts a nil node into a list of nodes
		if p.kind == pElem && len(p.path) == 0 {
			if pt, ok := types.Unalias(t).Underlying().(*types.Pointer); ok && strings.Contains(pt.Elem().String(), "sqlparser") {
				fv.assume(st, not(eq(v, "nil!ref")))
				fv.g.abstracted["assumed: elements of AST node lists are non-nil (parser output)"]++
			}
			if pt, ok := types.Unalias(t).Underlying().(*types.Pointer); ok && (strings.HasSuffix(pt.Elem().String(), "genql.IndexSelector") || strings.HasSuffix(pt.Elem().String(), "genql.PipeSelector")) {
				fv.assume(st, not(eq(v, "nil!ref")))
				fv.g.abstracted["assumed: parsed selector lists ([]*IndexSelector, []*PipeSelector) contain no nil entry (they are built by ParseArray/ParsePipe)"]++
			}
		}
		if gl, ok := ins.X.(*ssa.Global); ok && g.sortOf(t) == sRef && g.globalSetNonNilOnce(gl) {
			// the variable is assigned exactly once, in init, a freshly made map / compiled pattern: it is non-nil ever after
			fv.assume(st, not(eq(v, "nil!ref")))
		}
		fv.vals[ins] = fv.fromTerm(v, t)
		fv.markGuarded(ins, ins.X)
		fv.markSharedStorage(ins, ins.X)
	case token.ARROW: // receive
		fv.channelOp(st, "receive from "+fv.siteText(ins.Pos(), "receive"), ins.Pos())
		if tup, ok := ins.Type().(*types.Tuple); ok {
			fv.vals[ins] = fv.freshTuple(st, tup, "recv")
		} else {
			n := fv.c.Fresh("recv", g.sortOf(ins.Type()))
			fv.assume(st, fv.wf(n, ins.Type(), st.now))
			fv.vals[ins] = fv.fromTerm(n, ins.Type())
		}
	case token.NOT:
		fv.vals[ins] = &SV{v: Val{not(fv.val(ins.X).v.T), sBool}, typ: ins.Type()}
	case token.SUB:
		x := fv.val(ins.X).v
		if isBV(x.S) {
			fv.vals[ins] = &SV{v: Val{"(bvneg " + x.T + ")", x.S}, typ: ins.Type()}
		} else {
			fv.vals[ins] = &SV{v: Val{"(fp.neg " + x.T + ")", x.S}, typ: ins.Type()}
		}
	case token.XOR:
		x := fv.val(ins.X).v
		fv.vals[ins] = &SV{v: Val{"(bvnot " + x.T + ")", x.S}, typ: ins.Type()}
	default:
		panic(unsupported("unary " + ins.Op.String()))
	}
	return nil
}

func (fv *FnV) doBinOp(st *State, ins *ssa.BinOp) error {
	x, y := fv.val(ins.X), fv.val(ins.Y)
	xs := x.v.S
	if x.ptr != nil || xs == "" {
		xs = sRef
	}
	xt, yt := fv.term(x), fv.term(y)
	signed := isSigned(ins.X.Type())
	var out string
	rs := fv.g.sortOf(ins.Type())
	name := ins.Name()
	switch {
	case isBV(xs):
		w := bvWidth(xs)
		op := ""
		switch ins.Op {
		case token.ADD:
			op = "bvadd"
		case token.SUB:
			op = "bvsub"
		case token.MUL:
			op = "bvmul"
		case token.AND:
			op = "bvand"
		case token.OR:
			op = "bvor"
		case token.XOR:
			op = "bvxor"
		case token.AND_NOT:
			out = "(bvand " + xt + " (bvnot " + yt + "))"
		case token.QUO, token.REM:
			fv.safety(st, "div", not(eq(yt, bvLit(0, w))), ins.Pos())
			if ins.Op == token.QUO {
				op = map[bool]string{true: "bvsdiv", false: "bvudiv"}[signed]
			} else {
				op = map[bool]string{true: "bvsrem", false: "bvurem"}[signed]
			}
		case token.SHL, token.SHR:
			yw := bvWidth(y.v.S)
			ysigned := isSigned(ins.Y.Type())
			if ysigned {
				fv.safety(st, "shift", "(bvsge "+yt+" "+bvLit(0, yw)+")", ins.Pos())
			}
			cnt := yt
			big := "false"
			if yw < w {
				cnt = fmt.Sprintf("((_ zero_extend %d) %s)", w-yw, yt)
			} else if yw > w {
				big = "(bvuge " + yt + " " + bvLit(int64(w), yw) + ")"
				cnt = fmt.Sprintf("((_ extract %d 0) %s)", w-1, yt)
			}
			var sh, over string
			switch {
			case ins.Op == token.SHL:
				sh, over = "(bvshl "+xt+" "+cnt+")", bvLit(0, w)
			case signed:
				sh, over = "(bvashr "+xt+" "+cnt+")", "(bvashr "+xt+" "+bvLit(int64(w-1), w)+")"
			default:
				sh, over = "(bvlshr "+xt+" "+cnt+")", bvLit(0, w)
			}
			out = ite(big, over, sh)
		case token.EQL:
			out = eq(xt, yt)
		case token.NEQ:
			out = not(eq(xt, yt))
		case token.LSS:
			out = "(" + map[bool]string{true: "bvslt", false: "bvult"}[signed] + " " + xt + " " + yt + ")"
		case token.LEQ:
			out = "(" + map[bool]string{true: "bvsle", false: "bvule"}[signed] + " " + xt + " " + yt + ")"
		case token.GTR:
			out = "(" + map[bool]string{true: "bvsgt", false: "bvugt"}[signed] + " " + xt + " " + yt + ")"
		case token.GEQ:
			out = "(" + map[bool]string{true: "bvsge", false: "bvuge"}[signed] + " " + xt + " " + yt + ")"
		default:
			panic(unsupported("int binop " + ins.Op.String()))
		}
		if out == "" {
			out = "(" + op + " " + xt + " " + yt + ")"
		}
	case xs == sF64 || xs == sF32:
		switch ins.Op {
		case token.ADD:
			out = "(fp.add RNE " + xt + " " + yt + ")"
		case token.SUB:
			out = "(fp.sub RNE " + xt + " " + yt + ")"
		case token.MUL:
			out = "(fp.mul RNE " + xt + " " + yt + ")"
		case token.QUO:
			out = "(fp.div RNE " + xt + " " + yt + ")"
		case token.EQL:
			out = "(fp.eq " + xt + " " + yt + ")"
		case token.NEQ:
			out = "(not (fp.eq " + xt + " " + yt + "))"
		case token.LSS:
			out = "(fp.lt " + xt + " " + yt + ")"
		case token.LEQ:
			out = "(fp.leq " + xt + " " + yt + ")"
		case token.GTR:
			out = "(fp.gt " + xt + " " + yt + ")"
		case token.GEQ:
			out = "(fp.geq " + xt + " " + yt + ")"
		default:
			panic(unsupported("float binop " + ins.Op.String()))
		}
	case xs == sBool:
		switch ins.Op {
		case token.EQL:
			out = eq(xt, yt)
		case token.NEQ:
			out = not(eq(xt, yt))
		case token.AND, token.LAND:
			out = and(xt, yt)
		case token.OR, token.LOR:
			out = or(xt, yt)
		default:
			panic(unsupported("bool binop " + ins.Op.String()))
		}
	case xs == sStr:
		switch ins.Op {
		case token.ADD:
			n := fv.c.Define(name, sStr, app("str!cat", xt, yt))
			fv.c.AddFact(n, eq(app("str!len", n), "(bvadd (str!len "+xt+") (str!len "+yt+"))"))
			fv.assume(st, "(ok!str "+n+")")
			out = n
		case token.EQL:
			out = eq(xt, yt)
		case token.NEQ:
			out = not(eq(xt, yt))
		case token.LSS:
			out = "(< (str!cmp " + xt + " " + yt + ") 0)"
		case token.LEQ:
			out = "(<= (str!cmp " + xt + " " + yt + ") 0)"
		case token.GTR:
			out = "(> (str!cmp " + xt + " " + yt + ") 0)"
		case token.GEQ:
			out = "(>= (str!cmp " + xt + " " + yt + ") 0)"
		default:
			panic(unsupported("string binop " + ins.Op.String()))
		}
	case xs == sAny:
		// interface comparison panics when both hold the same uncomparable dynamic type
		if xt != "a!nil" && yt != "a!nil" {
			fv.safety(st, "cmp", fv.comparable(xt, yt), ins.Pos())
		}
		switch ins.Op {
		case token.EQL:
			out = eq(xt, yt)
		case token.NEQ:
			out = not(eq(xt, yt))
		default:
			panic(unsupported("interface binop " + ins.Op.String()))
		}
	default: // refs, slices vs nil, structs
		if xs == sSlice {
			// only comparison with nil is legal
			xt, yt = "(s!ref "+xt+")", "(s!ref "+yt+")"
		}
		switch ins.Op {
		case token.EQL:
			out = eq(xt, yt)
		case token.NEQ:
			out = not(eq(xt, yt))
		default:
			panic(unsupported("binop " + ins.Op.String() + " on " + xs))
		}
	}
	fv.vals[ins] = fv.fromTerm(fv.c.Define(name, rs, out), ins.Type())
	return nil
}

// comparable: comparing two interface values does not panic.
func (fv *FnV) comparable(x, y string) string {
	var bad []string
	for _, c := range fv.g.anyOrder {
		unc := false
		switch c.typ.Underlying().(type) {
		case *types.Slice, *types.Map, *types.Signature:
			unc = true
		}
		if unc {
			bad = append(bad, and("((_ is "+c.ctor+") "+x+")", "((_ is "+c.ctor+") "+y+")"))
		}
	}
	return not(or(bad...))
}

// convFn: the named function for a float/integer conversion operator (defined in the registry on first use).
func (g *Gen) convFn(op, from, to string) string {
	name := "cv!" + sanitize(op) + "!" + sanitize(from)
	if !g.reg.has(name) {
		g.reg.add(fmt.Sprintf("(define-fun %s ((x %s)) %s (%s x))", name, from, to, op), name)
	}
	return name
}

func (fv *FnV) convert(st *State, x *SV, from, to types.Type) *SV {
	g := fv.g
	fs, ts := g.sortOf(from), g.sortOf(to)
	xt := fv.term(x)
	var out string
	switch {
	case isBV(fs) && isBV(ts):
		fw, tw := bvWidth(fs), bvWidth(ts)
		switch {
		case fw == tw:
			out = xt
		case fw > tw:
			out = fmt.Sprintf("((_ extract %d 0) %s)", tw-1, xt)
		case isSigned(from):
			out = fmt.Sprintf("((_ sign_extend %d) %s)", tw-fw, xt)
		default:
			out = fmt.Sprintf("((_ zero_extend %d) %s)", tw-fw, xt)
		}
	case isBV(fs) && (ts == sF64 || ts == sF32):
		eb, sb := 11, 53
		if ts == sF32 {
			eb, sb = 8, 24
		}
		// conversions between integers and floats go through named functions, so that the solver front end can first
		// try the query with them left uninterpreted (congruence is enough whenever both sides convert the same value)
		if isSigned(from) {
			out = app(g.convFn(fmt.Sprintf("(_ to_fp %d %d) RNE", eb, sb), fs, ts), xt)
		} else {
			out = app(g.convFn(fmt.Sprintf("(_ to_fp_unsigned %d %d) RNE", eb, sb), fs, ts), xt)
		}
	case (fs == sF64 || fs == sF32) && isBV(ts):
		w := bvWidth(ts)
		// Go: the result of converting an out-of-range or NaN value is implementation-defined; fp.to_sbv leaves it unspecified as well.
		if isSigned(to) {
			out = app(g.convFn(fmt.Sprintf("(_ fp.to_sbv %d) RTZ", w), fs, ts), xt)
		} else {
			out = app(g.convFn(fmt.Sprintf("(_ fp.to_ubv %d) RTZ", w), fs, ts), xt)
		}
	case fs == sF64 && ts == sF32:
		out = "((_ to_fp 8 24) RNE " + xt + ")"
	case fs == sF32 && ts == sF64:
		out = "((_ to_fp 11 53) RNE " + xt + ")"
	case fs == ts && fs != sSlice:
		out = xt
	case fs == sStr && ts == sSlice: // []byte(s), []rune(s)
		r := fv.freshRef(st, "bytes")
		n := fv.c.Define("bytesof", sSlice, app("mk!slice", r, bvLit(0, 64), "(str!len "+xt+")", "(str!len "+xt+")"))
		et := to.Underlying().(*types.Slice).Elem()
		if bvWidth(g.sortOf(et)) == 8 {
			fv.ensureStrBytes()
			k := g.compElem(et)
			fv.heapSet(st, k, sto(fv.heapGet(st, k), r, app("str!bytes", xt)))
		}
		out = n
	case fs == sSlice && ts == sStr: // string(bytes)
		fv.ensureStrBytes()
		et := from.Underlying().(*types.Slice).Elem()
		k := g.compElem(et)
		n := fv.c.Define("strof", sStr, app("str!ofbytes", sel(fv.heapGet(st, k), "(s!ref "+xt+")"), "(s!off "+xt+")", "(s!len "+xt+")"))
		fv.c.AddFact(n, eq(app("str!len", n), "(s!len "+xt+")"))
		out = n
	case isBV(fs) && ts == sStr: // string(rune)
		fv.ensureStrBytes()
		w := bvWidth(fs)
		arg := xt
		if w < 64 {
			arg = fv.idx64(x, from)
		}
		n := fv.c.Define("strrune", sStr, app("str!fromrune", arg))
		fv.assume(st, "(ok!str "+n+")")
		out = n
	case fs == sSlice && ts == sSlice:
		out = xt
	default:
		panic(unsupported(fmt.Sprintf("conversion %s -> %s", from, to)))
	}
	return fv.fromTerm(fv.c.Define("conv", ts, out), to)
}

func (fv *FnV) ensureStrBytes() {
	r := fv.g.reg
	if r.has("str!bytes") {
		return
	}
	r.add("(declare-fun str!bytes (Str) (Array (_ BitVec 64) (_ BitVec 8)))", "str!bytes")
	r.add("(declare-fun str!ofbytes ((Array (_ BitVec 64) (_ BitVec 8)) (_ BitVec 64) (_ BitVec 64)) Str)", "str!ofbytes")
	r.add("(declare-fun str!fromrune ((_ BitVec 64)) Str)", "str!fromrune")
}

func (fv *FnV) doSlice(st *State, ins *ssa.Slice) error {
	x := fv.val(ins.X)
	z := bvLit(0, 64)
	get := func(v ssa.Value, def string) string {
		if v == nil {
			return def
		}
		return fv.idx64(fv.val(v), v.Type())
	}
	switch xt := ins.X.Type().Underlying().(type) {
	case *types.Slice:
		s := x.v.T
		lo := get(ins.Low, z)
		hi := get(ins.High, "(s!len "+s+")")
		mx := get(ins.Max, "(s!cap "+s+")")
		fv.safety(st, "slice", and("(bvsle "+z+" "+lo+")", "(bvsle "+lo+" "+hi+")", "(bvsle "+hi+" "+mx+")", "(bvsle "+mx+" (s!cap "+s+"))"), ins.Pos())
		if ins.High != nil {
			// a legal reslice beyond len conjures elements from spare capacity
			label := "reslice-within-len:" + fv.siteText(ins.Pos(), "slice")
			fv.emit(st, "S", label, fv.safetyPropsAt(label), "(bvsle "+hi+" (s!len "+s+"))", "slice upper bound does not exceed the length", ins.Pos()).Contained = fv.hasRecover
		}
		out := app("mk!slice", "(s!ref "+s+")", "(bvadd (s!off "+s+") "+lo+")", "(bvsub "+hi+" "+lo+")", "(bvsub "+mx+" "+lo+")")
		fv.vals[ins] = fv.fromTerm(fv.c.Define(ins.Name(), sSlice, out), ins.Type())
	case *types.Basic: // string
		s := x.v.T
		lo := get(ins.Low, z)
		hi := get(ins.High, "(str!len "+s+")")
		fv.safety(st, "slice", and("(bvsle "+z+" "+lo+")", "(bvsle "+lo+" "+hi+")", "(bvsle "+hi+" (str!len "+s+"))"), ins.Pos())
		n := fv.c.Define(ins.Name(), sStr, app("str!sub", s, lo, hi))
		fv.c.AddFact(n, implies(and("(bvsle "+z+" "+lo+")", "(bvsle "+lo+" "+hi+")"), eq(app("str!len", n), "(bvsub "+hi+" "+lo+")")))
		fv.vals[ins] = fv.fromTerm(n, ins.Type())
	case *types.Pointer:
		at := xt.Elem().Underlying().(*types.Array)
		base := fv.ptrOf(ins.X)
		n := bvLit(at.Len(), 64)
		lo := get(ins.Low, z)
		hi := get(ins.High, n)
		fv.safety(st, "slice", and("(bvsle "+z+" "+lo+")", "(bvsle "+lo+" "+hi+")", "(bvsle "+hi+" "+n+")"), ins.Pos())
		out := app("mk!slice", base.ref, lo, "(bvsub "+hi+" "+lo+")", "(bvsub "+n+" "+lo+")")
		fv.vals[ins] = fv.fromTerm(fv.c.Define(ins.Name(), sSlice, out), ins.Type())
	default:
		panic(unsupported("slice of " + ins.X.Type().String()))
	}
	return nil
}

func (fv *FnV) mapHas(st *State, mt *types.Map, m, k string) string {
	return and(not(eq(m, "nil!ref")), sel(sel(fv.heapGet(st, fv.g.compMapDom(mt)), m), k))
}

func (fv *FnV) mapGet(st *State, mt *types.Map, m, k string) string {
	return sel(sel(fv.heapGet(st, fv.g.compMapVal(mt)), m), k)
}

func (fv *FnV) mapStore(st *State, mt *types.Map, m, k, v string, pos token.Pos) {
	dk, vk := fv.g.compMapDom(mt), fv.g.compMapVal(mt)
	if fv.g.sortOf(mt.Key()) == sStr {
		fv.curWriteKey = k
	}
	defer func() { fv.curWriteKey = "" }()
	fv.frameWrite(st, vk, m, pos)
	d, vv := fv.heapGet(st, dk), fv.heapGet(st, vk)
	fv.heapSet(st, dk, sto(d, m, sto(sel(d, m), k, "true")))
	fv.heapSet(st, vk, sto(vv, m, sto(sel(vv, m), k, v)))
}

func (fv *FnV) mapDelete(st *State, mt *types.Map, m, k string, pos token.Pos) {
	dk := fv.g.compMapDom(mt)
	if fv.g.sortOf(mt.Key()) == sStr {
		fv.curWriteKey = k
	}
	defer func() { fv.curWriteKey = "" }()
	fv.frameWrite(st, dk, m, pos)
	d := fv.heapGet(st, dk)
	// delete on a nil map is a no-op
	fv.heapSet(st, dk, ite(eq(m, "nil!ref"), d, sto(d, m, sto(sel(d, m), k, "false"))))
}

func (fv *FnV) doLookup(st *State, ins *ssa.Lookup) error {
	g := fv.g
	switch xt := ins.X.Type().Underlying().(type) {
	case *types.Map:
		m := fv.val(ins.X).v.T
		k := fv.term(fv.val(ins.Index))
		fv.guardedAccess(st, ins.X, ins.Pos(), "read")
		has := fv.c.Define(ins.Name()+"!has", sBool, fv.mapHas(st, xt, m, k))
		v := fv.c.Define(ins.Name()+"!v", g.sortOf(xt.Elem()), ite(has, fv.mapGet(st, xt, m, k), g.zero(xt.Elem())))
		fv.assume(st, fv.wf(v, xt.Elem(), st.now))
		if _, isFn := types.Unalias(xt.Elem()).Underlying().(*types.Signature); isFn {
			fv.assume(st, implies(has, not(eq(v, "nil!ref"))))
			fv.g.abstracted["assumed: functions registered in the function tables are non-nil"]++
		}
		vv := fv.fromTerm(v, xt.Elem())
		if ins.CommaOk {
			fv.vals[ins] = &SV{tup: []SV{*vv, {v: Val{has, sBool}, typ: types.Typ[types.Bool]}}, typ: ins.Type()}
		} else {
			fv.vals[ins] = vv
		}
	default: // string index
		idx := fv.idx64(fv.val(ins.Index), ins.Index.Type())
		x := fv.val(ins.X).v.T
		fv.safety(st, "index", and("(bvsle #x0000000000000000 "+idx+")", "(bvslt "+idx+" (str!len "+x+"))"), ins.Pos())
		fv.vals[ins] = &SV{v: Val{app("str!at", x, idx), bvSort(8)}, typ: ins.Type()}
	}
	return nil
}

// Next on a map iterator: a nondeterministically chosen key of the domain.
func (fv *FnV) doNext(st *State, ins *ssa.Next) error {
	g := fv.g
	it := fv.val(ins.Iter)
	ok := fv.c.Fresh(ins.Name()+"!ok", sBool)
	if ins.IsString {
		idx := fv.c.Fresh(ins.Name()+"!i", sBV64)
		r := fv.c.Fresh(ins.Name()+"!r", bvSort(32))
		fv.assume(st, implies(ok, and("(bvsle #x0000000000000000 "+idx+")", "(bvslt "+idx+" (str!len "+it.v.T+"))")))
		fv.vals[ins] = &SV{tup: []SV{{v: Val{ok, sBool}, typ: types.Typ[types.Bool]}, {v: Val{idx, sBV64}, typ: types.Typ[types.Int]}, {v: Val{r, bvSort(32)}, typ: types.Typ[types.Rune]}}, typ: ins.Type()}
		return nil
	}
	mt := it.typ.Underlying().(*types.Map)
	k := fv.c.Fresh(ins.Name()+"!k", g.sortOf(mt.Key()))
	m := it.v.T
	fv.assume(st, implies(ok, fv.mapHas(st, mt, m, k)))
	fv.assume(st, fv.wf(k, mt.Key(), st.now))
	v := fv.c.Define(ins.Name()+"!v", g.sortOf(mt.Elem()), fv.mapGet(st, mt, m, k))
	fv.assume(st, fv.wf(v, mt.Elem(), st.now))
	kv, vv := fv.fromTerm(k, mt.Key()), fv.fromTerm(v, mt.Elem())
	fv.vals[ins] = &SV{tup: []SV{{v: Val{ok, sBool}, typ: types.Typ[types.Bool]}, *kv, *vv}, typ: ins.Type()}
	return nil
}

// ---- loops -------------------------------------------------------------------

func (fv *FnV) loopHead(li *loopInfo, st *State) error {
	b := li.header
	// 1. invariants hold on entry (phis currently hold their entry values)
	var invs []*Clause
	if fv.k != nil {
		invs = fv.k.LoopInv[li.ordinal]
	}
	if li.heldEntry == "" {
		li.heldEntry = fv.heapGet(st, "G|held")
	}
	fv.curHeld = fv.heapGet(st, "G|held")
	auto := fv.autoInvariants(li)
	for _, cl := range invs {
		env := fv.contractEnv(st, fv.entry, nil)
		env.loop = li
		t, err := env.evalBool(cl.Text)
		if err != nil {
			return fmt.Errorf("%s: loop %d invariant %s: %v", fv.name, li.ordinal, cl.Label, err)
		}
		fv.emit(st, "I", fmt.Sprintf("loop%d.%s.establish", li.ordinal, cl.Label), cl.Props, t, "invariant holds on loop entry: "+cl.Text, b.Instrs[0].Pos())
	}
	for i, a := range auto {
		t := a(fv)
		fv.emit(st, "I", fmt.Sprintf("loop%d.auto%d.establish", li.ordinal, i), fv.safetyProps(), t, "structural range-loop invariant holds on entry", b.Instrs[0].Pos())
	}
	if fv.k != nil {
		if cl := fv.k.RangeOver[li.ordinal]; cl != nil {
			fv.rangeForm(li, cl)
		}
		if cl := fv.k.Exhaustive[li.ordinal]; cl != nil {
			fv.exhaustiveForm(li, cl)
		}
		if cl := fv.k.Rereads[li.ordinal]; cl != nil {
			fv.rereadsForm(li, cl)
		}
		if cl := fv.k.Unconditional[li.ordinal]; cl != nil {
			fv.unconditionalForm(li, cl)
		}
	}
	li.entrySt = st.clone()
	// 2. havoc
	for _, ins := range b.Instrs {
		phi, ok := ins.(*ssa.Phi)
		if !ok {
			continue
		}
		n := fv.c.Fresh("phi!"+phi.Name()+"!"+sanitize(phi.Comment), fv.g.sortOf(phi.Type()))
		li.phis[phi] = n
		fv.vals[phi] = fv.fromTerm(n, phi.Type())
	}
	fv.havoc(st, li.mods, "loop")
	// a call inside the loop may or may not have been made in an earlier iteration: its reached-flag is unknown here
	// (and in the code after the loop), not false
	for blk := range li.body {
		for _, bi := range blk.Instrs {
			if c, ok := bi.(ssa.CallInstruction); ok && c.Pos().IsValid() {
				flag := fmt.Sprintf("X|call%d", int(c.Pos()))
				st.heap[flag] = fv.c.Fresh("maybe!called", sBool)
				// a new iteration begins: in it the call has not been made yet
				st.heap[fmt.Sprintf("X|iter%d", int(c.Pos()))] = "false"
			}
		}
	}
	for _, ins := range b.Instrs {
		if phi, ok := ins.(*ssa.Phi); ok {
			fv.assume(st, fv.wf(li.phis[phi], phi.Type(), st.now))
		}
	}
	// 3. assume invariants
	for _, cl := range invs {
		env := fv.contractEnv(st, fv.entry, nil)
		env.loop = li
		t, err := env.evalBool(cl.Text)
		if err != nil {
			return err
		}
		fv.assume(st, t)
	}
	fv.curHeld = fv.heapGet(st, "G|held")
	for _, a := range auto {
		fv.assume(st, a(fv))
	}
	if fv.k != nil {
		if d := fv.k.LoopDec[li.ordinal]; d != nil {
			env := fv.contractEnv(st, fv.entry, nil)
			env.loop = li
			v, err := env.eval(d.Text)
			if err != nil {
				return fmt.Errorf("%s: loop %d decreases: %v", fv.name, li.ordinal, err)
			}
			li.decHead = fv.c.Define("measure", v.S, v.T)
		}
	}
	return nil
}

func (fv *FnV) backEdge(li *loopInfo, from *ssa.BasicBlock, st *State) error {
	guard := fv.edgeGuard(from, li.header)
	est := st.clone()
	est.pc = guard
	// bind phis to the values flowing along this edge
	saved := map[*ssa.Phi]*SV{}
	for _, ins := range li.header.Instrs {
		phi, ok := ins.(*ssa.Phi)
		if !ok {
			continue
		}
		saved[phi] = fv.vals[phi]
		for i, p := range li.header.Preds {
			if p == from {
				fv.vals[phi] = fv.val(phi.Edges[i])
			}
		}
	}
	// values read through saved entries may themselves be header phis of this loop (swap semantics): resolve against saved
	defer func() {
		for phi, sv := range saved {
			fv.vals[phi] = sv
		}
	}()
	var invs []*Clause
	if fv.k != nil {
		invs = fv.k.LoopInv[li.ordinal]
	}
	pos := from.Instrs[len(from.Instrs)-1].Pos()
	if !pos.IsValid() {
		pos = li.header.Instrs[0].Pos()
	}
	for _, cl := range invs {
		env := fv.contractEnv(est, fv.entry, nil)
		env.loop = li
		t, err := env.evalBool(cl.Text)
		if err != nil {
			return fmt.Errorf("%s: loop %d invariant %s: %v", fv.name, li.ordinal, cl.Label, err)
		}
		fv.emit(est, "I", fmt.Sprintf("loop%d.%s.preserve", li.ordinal, cl.Label), cl.Props, t, "invariant preserved by the loop body: "+cl.Text, pos)
	}
	fv.curHeld = fv.heapGet(est, "G|held")
	for i, a := range fv.autoInvariants(li) {
		fv.emit(est, "I", fmt.Sprintf("loop%d.auto%d.preserve", li.ordinal, i), fv.safetyProps(), a(fv), "structural range-loop invariant preserved", pos)
	}
	if fv.k != nil {
		if d := fv.k.LoopDec[li.ordinal]; d != nil && li.decHead != "" {
			env := fv.contractEnv(est, fv.entry, nil)
			env.loop = li
			v, err := env.eval(d.Text)
			if err != nil {
				return err
			}
			var goal string
			if isBV(v.S) {
				goal = and("(bvsle "+bvLit(0, bvWidth(v.S))+" "+li.decHead+")", "(bvslt "+v.T+" "+li.decHead+")")
			} else {
				goal = and("(<= 0 "+li.decHead+")", "(< "+v.T+" "+li.decHead+")")
			}
			props := d.Props
			fv.emit(est, "T", fmt.Sprintf("loop%d.decreases", li.ordinal), props, goal, "measure is bounded below and decreases: "+d.Text, pos)
		}
	}
	// an error obtained in this iteration must not be carried silently into the next
	fv.errorChecks(est, "(continue loop)", "true", pos, true)
	return nil
}

// autoInvariants: the structural facts of a `for i := range slice` loop.
func (fv *FnV) autoInvariants(li *loopInfo) []func(*FnV) string {
	var out []func(*FnV) string
	// every iteration leaves the mutexes as it found them
	if li.mods.comps["G|held"] || li.mods.all {
		out = append(out, func(fv *FnV) string {
			cur := fv.curHeld
			if cur == "" {
				return "true"
			}
			return eq(cur, li.heldEntry)
		})
	}
	for _, ins := range li.header.Instrs {
		phi, ok := ins.(*ssa.Phi)
		if !ok || phi.Comment != "rangeindex" {
			continue
		}
		// header: t1 = phi ; t2 = t1 + 1 ; t3 = t2 < tlen ; if t3
		var lenV ssa.Value
		for _, x := range li.header.Instrs {
			if b, ok := x.(*ssa.BinOp); ok && b.Op == token.LSS {
				lenV = b.Y
			}
		}
		if lenV == nil {
			continue
		}
		p := phi
		lv := lenV
		out = append(out, func(fv *FnV) string {
			pv := fv.val(p).v.T
			l := fv.val(lv).v.T
			return and("(bvsle #xffffffffffffffff "+pv+")", "(bvslt "+pv+" (bvadd "+l+" #x0000000000000001))", "(bvsle "+pv+" (bvsub "+l+" #x0000000000000001))", "(bvsle #x0000000000000000 "+l+")")
		})
	}
	// accumulators: a slice that starts out freshly made (or nil) and is only ever replaced by append(itself, ...)
	// keeps a backing array allocated by this activation
	for _, ins := range li.header.Instrs {
		phi, ok := ins.(*ssa.Phi)
		if !ok {
			continue
		}
		if _, isSlice := phi.Type().Underlying().(*types.Slice); !isSlice {
			continue
		}
		if !accumulates(phi, phi, map[ssa.Value]bool{}) {
			continue
		}
		p := phi
		out = append(out, func(fv *FnV) string {
			fv.bornFn()
			pv := fv.val(p).v.T
			return or(eq("(s!cap "+pv+")", bvLit(0, 64)), "(>= (birth (s!ref "+pv+")) "+fv.now0+")")
		})
	}
	return out
}

// accumulates: v is the accumulator phi itself, a freshly made or nil slice, or an append to / a reslice of such a value.
func accumulates(v ssa.Value, acc *ssa.Phi, seen map[ssa.Value]bool) bool {
	if seen[v] {
		return true
	}
	seen[v] = true
	switch x := v.(type) {
	case *ssa.Phi:
		for _, e := range x.Edges {
			if !accumulates(e, acc, seen) {
				return false
			}
		}
		return true
	case *ssa.MakeSlice:
		return true
	case *ssa.Const:
		return x.Value == nil
	case *ssa.Slice:
		if a, ok := x.X.(*ssa.Alloc); ok {
			_ = a
			return true
		}
		if _, ok := x.X.Type().Underlying().(*types.Slice); ok {
			return accumulates(x.X, acc, seen)
		}
		return false
	case *ssa.Call:
		if b, ok := x.Common().Value.(*ssa.Builtin); ok && b.Name() == "append" {
			return accumulates(x.Common().Args[0], acc, seen)
		}
	}
	return false
}

// rangeForm: the loop is a `for ... range X` over the slice named in the clause, i.e. it visits positions 0, 1, 2, ... in that order.
func (fv *FnV) rangeForm(li *loopInfo, cl *Clause) {
	want := strings.TrimSpace(cl.Text)
	ok := false
	why := "the loop is not a range loop over a slice"
	for _, ins := range li.header.Instrs {
		phi, isPhi := ins.(*ssa.Phi)
		if !isPhi || phi.Comment != "rangeindex" {
			continue
		}
		// entry value -1, step +1, bound len(X)
		why = "the range loop does not iterate over `" + want + "`"
		for _, x := range li.header.Instrs {
			b, isB := x.(*ssa.BinOp)
			if !isB || b.Op != token.LSS {
				continue
			}
			if c, isC := b.Y.(*ssa.Call); isC {
				if bi, isBi := c.Common().Value.(*ssa.Builtin); isBi && bi.Name() == "len" {
					if fv.valueNamed(c.Common().Args[0], want) {
						ok = true
					}
				}
			}
		}
	}
	goal := "false"
	if ok {
		goal = "true"
	}
	o := fv.emit(nil, "O", fmt.Sprintf("loop%d.%s", li.ordinal, cl.Label), cl.Props, goal, "loop is `for ... range "+want+"` (ascending positions 0..len-1)", li.header.Instrs[0].Pos())
	if !ok {
		o.Static = "fails: " + why
		o.Script = ""
	}
}

// valueNamed: v is the value of the source-level variable or selector expression `name` (e.g. current, expr.Exprs, *slice).
func (fv *FnV) valueNamed(v ssa.Value, name string) bool {
	if p, ok := v.(*ssa.Parameter); ok && p.Name() == name {
		return true
	}
	for _, d := range fv.localNames[strings.TrimPrefix(name, "*")] {
		if d.X == v {
			return true
		}
		if u, ok := v.(*ssa.UnOp); ok && u.X == d.X {
			return true
		}
	}
	// x.f : load of a field address
	if i := strings.LastIndex(name, "."); i > 0 {
		if u, ok := v.(*ssa.UnOp); ok {
			if fa, ok := u.X.(*ssa.FieldAddr); ok {
				st := fa.X.Type().Underlying().(*types.Pointer).Elem().Underlying().(*types.Struct)
				if st.Field(fa.Field).Name() == name[i+1:] {
					return fv.valueNamed(fa.X, name[:i]) || fv.ptrNamed(fa.X, name[:i])
				}
			}
		}
	}
	return false
}

func (fv *FnV) ptrNamed(v ssa.Value, name string) bool {
	if p, ok := v.(*ssa.Parameter); ok && p.Name() == name {
		return true
	}
	for _, d := range fv.localNames[name] {
		if d.X == v {
			return true
		}
	}
	return false
}

func blockReaches(from, to *ssa.BasicBlock) bool {
	seen := map[*ssa.BasicBlock]bool{}
	stack := []*ssa.BasicBlock{from}
	for len(stack) > 0 {
		b := stack[len(stack)-1]
		stack = stack[:len(stack)-1]
		if b == to {
			return true
		}
		if seen[b] {
			continue
		}
		seen[b] = true
		stack = append(stack, b.Succs...)
	}
	return false
}

// exhaustiveForm: the loop is left only through its header (the range is exhausted) or by returning from the function;
// no `break`, `goto` or labelled `continue` of an outer loop carries control to the code after the loop early.
func (fv *FnV) exhaustiveForm(li *loopInfo, cl *Clause) {
	var done *ssa.BasicBlock
	for _, s := range li.header.Succs {
		if !li.body[s] && s != li.header {
			done = s
		}
	}
	why := ""
	for b := range li.body {
		if b == li.header {
			continue
		}
		for _, t := range b.Succs {
			if li.body[t] || t == li.header {
				continue
			}
			if t == done {
				why = "block " + b.String() + " (" + fv.posString(b.Instrs[len(b.Instrs)-1].Pos()) + ") jumps to the code after the loop"
				continue
			}
			if _, ok := t.Instrs[len(t.Instrs)-1].(*ssa.Return); !ok {
				if _, isPanic := t.Instrs[len(t.Instrs)-1].(*ssa.Panic); !isPanic && why == "" {
					why = "block " + b.String() + " leaves the loop without returning"
				}
			}
		}
	}
	goal := "true"
	if why != "" {
		goal = "false"
	}
	o := fv.emit(nil, "O", fmt.Sprintf("loop%d.%s", li.ordinal, cl.Label), cl.Props, goal, "the loop is left only when its range is exhausted or by a return: "+cl.Text, li.header.Instrs[0].Pos())
	if why != "" {
		o.Static = "fails: " + why
		o.Script = ""
	}
}

// unconditionalForm: no block of the loop other than its header has two successors, and none leaves the loop: every
// iteration runs every instruction of the body (no `continue`, `break` or early return skips a part of it).
func (fv *FnV) unconditionalForm(li *loopInfo, cl *Clause) {
	why := ""
	for b := range li.body {
		if b == li.header {
			continue
		}
		last := b.Instrs[len(b.Instrs)-1]
		if len(b.Succs) != 1 {
			why = "block " + b.String() + " (" + fv.posString(last.Pos()) + ") branches or returns inside the loop"
			break
		}
		if t := b.Succs[0]; !li.body[t] && t != li.header {
			why = "block " + b.String() + " (" + fv.posString(last.Pos()) + ") leaves the loop"
			break
		}
	}
	goal := "true"
	if why != "" {
		goal = "false"
	}
	o := fv.emit(nil, "O", fmt.Sprintf("loop%d.%s", li.ordinal, cl.Label), cl.Props, goal, "every iteration runs the whole body: "+cl.Text, li.header.Instrs[0].Pos())
	if why != "" {
		o.Static = "fails: " + why
		o.Script = ""
	}
}

// rereadsForm: the loop condition compares against len(<expr>) and that length is computed inside the loop, i.e. again
// before every iteration - elements appended while the loop runs are visited (a `for range` takes the length once).
func (fv *FnV) rereadsForm(li *loopInfo, cl *Clause) {
	want := strings.TrimSpace(cl.Text)
	ok := false
	why := "the loop condition is not a comparison with len(" + want + ")"
	if ifi, isIf := li.header.Instrs[len(li.header.Instrs)-1].(*ssa.If); isIf {
		if b, isB := ifi.Cond.(*ssa.BinOp); isB && b.Op == token.LSS {
			if c, isC := b.Y.(*ssa.Call); isC {
				if bi, isBi := c.Common().Value.(*ssa.Builtin); isBi && bi.Name() == "len" && fv.valueNamed(c.Common().Args[0], want) {
					if li.body[c.Block()] || c.Block() == li.header {
						ok = true
					} else {
						why = "len(" + want + ") is taken once, before the loop"
					}
				}
			}
		}
	}
	goal := "false"
	if ok {
		goal = "true"
	}
	o := fv.emit(nil, "O", fmt.Sprintf("loop%d.%s", li.ordinal, cl.Label), cl.Props, goal, "the loop runs to the current end of "+want+": its length is read again before every iteration", li.header.Instrs[0].Pos())
	if !ok {
		o.Static = "fails: " + why
		o.Script = ""
	}
}

// channelOp: channels are outside the modelled subset. The operation itself is treated as a call into unknown code
// (other goroutines run); what the checks cannot give any more is the argument that the function returns: the lock and
// wait-group obligations cover mutexes and wait groups only, a blocking channel operation is outside them. That is
// reported as one named obligation under the properties that promise the absence of hangs, instead of failing the
// whole contract of the function.
func (fv *FnV) channelOp(st *State, what string, pos token.Pos) {
	o := fv.emit(st, "L", "no-channel-operations:"+what, fv.lockProps(), "false",
		"the function blocks only on mutexes and wait groups (for which balance and wait obligations exist); a channel operation may block for ever and is outside the modelled subset", pos)
	o.Static = "fails: " + what
	o.Script = ""
	ms := newModSet()
	ms.external = true
	fv.havoc(st, ms, "channel operation")
	fv.g.abstracted["channel operation treated as a call into unknown code"]++
}

func (fv *FnV) freshTuple(st *State, t types.Type, hint string) *SV {
	tup, ok := t.(*types.Tuple)
	if !ok {
		n := fv.c.Fresh(hint, fv.g.sortOf(t))
		fv.assume(st, fv.wf(n, t, st.now))
		return fv.fromTerm(n, t)
	}
	out := &SV{typ: tup}
	for i := 0; i < tup.Len(); i++ {
		n := fv.c.Fresh(fmt.Sprintf("%s!%d", hint, i), fv.g.sortOf(tup.At(i).Type()))
		fv.assume(st, fv.wf(n, tup.At(i).Type(), st.now))
		out.tup = append(out.tup, *fv.fromTerm(n, tup.At(i).Type()))
	}
	return out
}
