package main

import (
	"encoding/json"
	"fmt"
	"os"
	"path/filepath"
	"sort"
	"strings"
)

func safeFile(s string) string {
	var b strings.Builder
	for _, c := range s {
		switch {
		case c >= 'a' && c <= 'z' || c >= 'A' && c <= 'Z' || c >= '0' && c <= '9' || c == '.' || c == '-' || c == '_':
			b.WriteRune(c)
		default:
			b.WriteByte('_')
		}
	}
	out := b.String()
	if len(out) > 120 {
		out = out[:120]
	}
	return out
}

type ReplayFile struct {
	Property    string            `json:"property"`
	Obligation  string            `json:"obligation"`
	Kind        string            `json:"kind"`
	Function    string            `json:"function"`
	Position    string            `json:"position"`
	Clause      string            `json:"clause"`
	Result      string            `json:"solver_result"`
	Solvers     map[string]string `json:"solver_results,omitempty"`
	Static      string            `json:"static_reason,omitempty"`
	Model       string            `json:"model,omitempty"`
	Inputs      map[string]string `json:"decoded_inputs,omitempty"`
	ReplayTest  string            `json:"replay_test,omitempty"`
	ReplayOut   string            `json:"replay_output,omitempty"`
	Confirmed   bool              `json:"confirmed_on_real_code"`
	Note        string            `json:"note"`
	Script      string            `json:"smt_script,omitempty"`
	ReplayCmd   string            `json:"replay_cmd,omitempty"`
}

func writeReplay(g *Gen, dir, prop string, o *Obligation, timeout int) string {
	d := filepath.Join(dir, prop)
	os.MkdirAll(d, 0o755)
	path := filepath.Join(d, safeFile(o.Name)+".json")
	rf := &ReplayFile{Property: prop, Obligation: o.Name, Kind: o.Kind, Function: o.Func, Position: o.Pos, Clause: o.Clause,
		Result: o.Result, Solvers: o.AllRes, Static: o.Static, Model: o.Model, Script: o.Script}
	if o.ExpectSat {
		rf.Note = "vacuity cover: this query must be satisfiable; it is not, so some precondition/assumption is contradictory"
	}
	if o.Result == "sat" && o.fv != nil {
		if replayBudget > 0 {
			replayBudget--
			tryReplay(g, o, rf)
		} else {
			rf.Note = "not replayed: the first failing obligations of this run were replayed, the replay budget (4 per run) is used up; rerun with -replay-budget N to replay more"
		}
	}
	if !rf.Confirmed && rf.Note == "" {
		switch {
		case o.Static != "":
			rf.Note = "decided structurally, without a solver: " + o.Static
		case o.Result == "sat":
			rf.Note = "the solver produced a model but it could not be decoded into inputs of the real function, or the run on the real code did not exhibit the failure (the failure may need heap shapes the decoder does not build); the obligation is discharged on the unchanged tree and is not any more"
		default:
			rf.Note = "no solver could discharge the obligation within the time limit and none produced a model; the obligation is discharged on the unchanged tree and is not any more"
		}
	}
	o.ReplayConfirmed = rf.Confirmed
	b, _ := json.MarshalIndent(rf, "", " ")
	os.WriteFile(path, b, 0o644)
	return path
}

type Evidence struct {
	PropertyID  string         `json:"property_id"`
	Tier        string         `json:"tier"`
	Seed        int            `json:"seed"`
	Level       string         `json:"level"`
	Coverage    map[string]any `json:"coverage"`
	Assumptions []string       `json:"assumptions"`
	WallS       float64        `json:"wall_s"`
	Violations  int            `json:"violations"`
}

func writeEvidence(g *Gen, path, prop, tier string, seed int, obs, failed, knownHit []*Obligation, knownBy map[string]KnownFinding,
	funcs []string, trusted map[string]string, nOb, nDis, nCover, nCoverOK int, bySolver, byKind map[string]int, solverSecs, wall float64, timeout int, engineErrs []string) {
	level := levelOf(prop)
	cov := map[string]any{}
	cov["obligations"] = nOb
	cov["discharged"] = nDis
	cov["checker_cmd"] = fmt.Sprintf("/verif/bin/govc -repo %s check -prop %s -tier %s  (verification conditions generated from go/ssa of the working tree; portfolio z3 5.1.0 / z3 4.8.12 / cvc5 1.0, %ds per query)", g.repo, prop, tier, timeout)
	sort.Strings(funcs)
	cov["functions_under_contract"] = funcs
	cov["obligations_by_kind"] = byKind
	cov["discharged_by_backend"] = bySolver
	cov["solver_seconds"] = round2(solverSecs)
	cov["vacuity_covers"] = map[string]int{"total": nCover, "satisfiable": nCoverOK}
	var samples []map[string]any
	var contained []string
	slowest := 0.0
	for _, o := range obs {
		if o.Contained {
			contained = append(contained, o.Name)
			continue
		}
		if o.Secs > slowest {
			slowest = o.Secs
		}
	}
	cov["slowest_query_seconds"] = round2(slowest)
	// samples: first obligation of each kind
	seenKind := map[string]int{}
	for _, o := range obs {
		if o.Contained || seenKind[o.Kind] >= 3 {
			continue
		}
		seenKind[o.Kind]++
		samples = append(samples, map[string]any{"name": o.Name, "kind": o.Kind, "clause": o.Clause, "at": o.Pos, "result": o.Result, "backend": o.Solver, "smt_bytes": len(o.Script)})
	}
	cov["samples"] = samples
	if len(contained) > 0 {
		cov["panic_sites_inside_recovering_frames_listed_not_claimed"] = contained
	}
	var kn []map[string]string
	for _, o := range knownHit {
		kn = append(kn, map[string]string{"obligation": o.Name, "what": knownBy[o.Name].What, "region": knownBy[o.Name].Region})
	}
	cov["known_findings_reported"] = kn
	var fl []map[string]string
	for _, o := range failed {
		fl = append(fl, map[string]string{"obligation": o.Name, "result": o.Result, "clause": o.Clause})
	}
	cov["failed_obligations"] = fl
	tb := []string{
		"go/packages + go/types + go/ssa (golang.org/x/tools v0.29.0) build a faithful IR of the working tree",
		"govc's SSA->SMT translation (bit-vector integers, IEEE floats, component heaps, Any as a datatype); guarded by the must-fail corpus in /verif/selftest and by replay of refutations",
		"z3 5.1.0, z3 4.8.12, cvc5 1.0 (an obligation counts as discharged on the first unsat; the thorough tier runs all three and lets any sat win)",
	}
	for f, why := range trusted {
		tb = append(tb, "trusted contract (body not verified): "+f+": "+why)
	}
	for n, txt := range g.definitional {
		tb = append(tb, "definitional clause (names a function already pinned by a proved clause; assumed at call sites, no obligation): "+n+": "+txt)
	}
	var abs []string
	for k, n := range g.abstracted {
		abs = append(abs, fmt.Sprintf("%s (x%d)", k, n))
	}
	sort.Strings(abs)
	cov["abstracted_constructs"] = abs
	cov["trusted_base"] = tb
	cov["explanation"] = propExplanation(prop)
	if len(engineErrs) > 0 {
		cov["engine_errors"] = engineErrs
	}
	if b := boundedResults[prop]; b != nil {
		cov["bounded_stand_ins_not_counted_as_proved"] = b
	}
	nb := 0
	if brs, ok := boundedResults[prop].([]map[string]any); ok {
		for _, br := range brs {
			if v, _ := br["violations"].(float64); v > 0 {
				classes, _ := br["violation_classes"].(map[string]any)
				for cl := range classes {
					if _, isKnown := knownBy["bounded."+fmt.Sprint(br["name"])+"#"+cl]; !isKnown {
						nb++
						break
					}
				}
			}
		}
	}
	ev := &Evidence{PropertyID: prop, Tier: tier, Seed: seed, Level: level, Coverage: cov, WallS: round2(wall), Violations: len(failed) + nb}
	ev.Assumptions = append(ev.Assumptions, assumptionsFor(g, prop)...)
	b, _ := json.MarshalIndent(ev, "", " ")
	os.MkdirAll(filepath.Dir(path), 0o755)
	os.WriteFile(path, b, 0o644)
}

func round2(f float64) float64 { return float64(int(f*100+0.5)) / 100 }

var boundedResults = map[string]any{}
var replayBudget = 4
