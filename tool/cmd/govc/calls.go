package main

// Calls: builtins, module functions (by contract or by inferred frame),
// modelled library functions, dynamic calls; go statements; returns.

import (
	"go/constant"
	"fmt"
	"go/token"
	"go/types"
	"sort"
	"strings"

	"golang.org/x/tools/go/ssa"
)

func (fv *FnV) freshResults(st *State, sig *types.Signature, hint string) *SV {
	res := sig.Results()
	mk := func(i int) *SV {
		t := res.At(i).Type()
		n := fv.c.Fresh(fmt.Sprintf("r!%s!%d", hint, i), fv.g.sortOf(t))
		fv.assume(st, fv.wf(n, t, st.now))
		return fv.fromTerm(n, t)
	}
	switch res.Len() {
	case 0:
		return &SV{typ: res}
	case 1:
		return mk(0)
	}
	out := &SV{typ: res}
	for i := 0; i < res.Len(); i++ {
		out.tup = append(out.tup, *mk(i))
	}
	return out
}

func isErrorType(t types.Type) bool {
	n, ok := types.Unalias(t).(*types.Named)
	return ok && n.Obj().Pkg() == nil && n.Obj().Name() == "error"
}

// lastError returns the term of the trailing error result, if any.
func lastError(sig *types.Signature, res *SV) (string, bool) {
	r := sig.Results()
	if r.Len() == 0 || !isErrorType(r.At(r.Len()-1).Type()) {
		return "", false
	}
	if r.Len() == 1 {
		return res.v.T, true
	}
	return res.tup[r.Len()-1].v.T, true
}

// neverFails: library functions whose error result is documented to be always nil.
var neverFails = map[string]bool{
	"(*strings.Builder).WriteString": true, "(*strings.Builder).WriteByte": true, "(*strings.Builder).WriteRune": true, "(*strings.Builder).Write": true,
	"(*bytes.Buffer).WriteString": true, "(*bytes.Buffer).WriteByte": true, "(*bytes.Buffer).WriteRune": true, "(*bytes.Buffer).Write": true,
}

func (fv *FnV) recordErrCall(st *State, callee string, sig *types.Signature, res *SV, pos token.Pos) {
	e, ok := lastError(sig, res)
	if !ok || neverFails[callee] {
		return
	}
	ec := &errCall{id: len(fv.errCalls), callee: callee, errV: e, pos: pos, block: fv.curBlock}
	if fv.k != nil {
		for pat, why := range fv.k.Absorbs {
			if pat == callee || strings.HasSuffix(callee, "."+pat) {
				ec.absorbed = why
				if why == "" {
					ec.absorbed = "declared"
				}
			}
		}
	}
	fv.errCalls = append(fv.errCalls, ec)
	st.heap[fmt.Sprintf("X|%d", ec.id)] = "true"
}

func (fv *FnV) doCall(st *State, ins ssa.Instruction, cc *ssa.CallCommon, pos token.Pos) (*SV, error) {
	sig := cc.Signature()
	if cc.IsInvoke() {
		return fv.invoke(st, cc, pos)
	}
	switch callee := cc.Value.(type) {
	case *ssa.Builtin:
		return fv.builtin(st, ins, callee, cc, pos)
	case *ssa.Function:
		if _, ok := fv.g.modsets[callee]; ok {
			return fv.moduleCall(st, callee, cc.Args, nil, pos)
		}
		if err := fv.libAtCall(st, callee, cc, pos); err != nil {
			return nil, err
		}
		return fv.libCall(st, callee, cc, pos)
	case *ssa.MakeClosure:
		f := callee.Fn.(*ssa.Function)
		if _, ok := fv.g.modsets[f]; ok {
			return fv.moduleCall(st, f, cc.Args, callee, pos)
		}
	}
	// dynamic call through a function value
	if sv := fv.val(cc.Value); sv.clo != nil {
		f := sv.clo.Fn.(*ssa.Function)
		return fv.moduleCall(st, f, cc.Args, sv.clo, pos)
	} else if sv.fn != nil {
		if _, ok := fv.g.modsets[sv.fn]; ok {
			return fv.moduleCall(st, sv.fn, cc.Args, nil, pos)
		}
	}
	fnv := fv.term(fv.val(cc.Value))
	fv.safety(st, "nil", not(eq(fnv, "nil!ref")), pos)
	if len(fv.lockSites) > 0 {
		// a function value may be any code, also code that takes the mutex this function holds (or that waits for
		// something that does): no mutex of this function is held across such a call
		var free []string
		for _, m := range fv.lockSites {
			free = append(free, eq(sel(fv.heapGet(st, "G|held"), m), "0"))
		}
		fv.emit(st, "L", "no-relock:(function value)@"+fv.siteText(pos, "call"), fv.lockProps(), and(free...),
			"no mutex of this function is held across a call through a function value (self-deadlock if what is called locks it)", pos)
	}
	if fv.k != nil {
		for _, cl := range fv.k.CallAsserts["dynamic"] {
			fv.hitAtCall(cl)
			env := fv.contractEnv(st, fv.entry, nil)
			if li := fv.innermostLoop(); li != nil {
				env.loop = li
			}
			t, err := env.evalBool(cl.Text)
			if err != nil {
				return nil, fmt.Errorf("%s: at-call dynamic assert %s: %v", fv.name, cl.Label, err)
			}
			fv.emit(st, "A", "dynamic."+cl.Label+"@"+fv.siteText(pos, "call"), cl.Props, t, "holds just before the call through a function value: "+cl.Text, pos)
		}
	}
	ms := newModSet()
	fv.g.dynMods(cc.Value, ms)
	fv.frameCall(st, ms, "dynamic call", pos)
	fv.havoc(st, ms, "dynamic call")
	res := fv.freshResults(st, sig, "dyn")
	fv.recordErrCall(st, "(dynamic "+types.TypeString(cc.Value.Type(), nil)+")", sig, res, pos)
	return res, nil
}

func (fv *FnV) invoke(st *State, cc *ssa.CallCommon, pos token.Pos) (*SV, error) {
	recv := fv.val(cc.Value).v.T
	fv.safety(st, "nil", not(eq(recv, "a!nil")), pos)
	ms := newModSet()
	fv.g.callMods(cc, ms)
	fv.frameCall(st, ms, "interface method "+cc.Method.Name(), pos)
	fv.havoc(st, ms, "invoke")
	sig := cc.Signature()
	res := fv.freshResults(st, sig, "inv."+cc.Method.Name())
	// error.Error and AST accessors are functions of the receiver
	if sig.Results().Len() == 1 && sig.Params().Len() == 0 {
		rs := fv.g.sortOf(sig.Results().At(0).Type())
		fn := quoteSym("m!" + cc.Method.Name() + "!" + sanitize(rs))
		if !fv.g.reg.has(fn) {
			fv.g.reg.add(fmt.Sprintf("(declare-fun %s (Any) %s)", fn, rs), fn)
		}
		fv.assume(st, eq(res.v.T, app(fn, recv)))
	}
	fv.recordErrCall(st, "(interface)."+cc.Method.Name(), sig, res, pos)
	return res, nil
}

// moduleCall: a function of the verified packages. With a contract: check
// requires, havoc its frame, assume ensures. Without: havoc the inferred frame.
func (fv *FnV) moduleCall(st *State, callee *ssa.Function, args []ssa.Value, clo *ssa.MakeClosure, pos token.Pos) (*SV, error) {
	cname := canonName(callee)
	k := fv.g.contractFor(cname)
	sig := callee.Signature
	var argTerms []*SV
	for _, a := range args {
		sv := fv.val(a)
		argTerms = append(argTerms, sv)
	}
	ms := fv.g.effectiveMods(callee)
	if len(fv.lockSites) > 0 && fv.g.subtreeLocks(callee) {
		var free []string
		for _, m := range fv.lockSites {
			free = append(free, eq(sel(fv.heapGet(st, "G|held"), m), "0"))
		}
		fv.emit(st, "L", "no-relock:"+shortCallee(cname)+"@"+fv.siteText(pos, "call"), fv.lockProps(), and(free...),
			"no mutex of this function is held across a call that may lock (self-deadlock)", pos)
	}
	if fv.k != nil {
		var atCall []*Clause
		site := fv.siteText(pos, "call")
		for key, list := range fv.k.CallAsserts {
			if key == shortCallee(cname) || (strings.HasPrefix(key, shortCallee(cname)+":") && strings.Contains(site, strings.TrimPrefix(key, shortCallee(cname)+":"))) {
				atCall = append(atCall, list...)
			}
		}
		sort.Slice(atCall, func(i, j int) bool { return atCall[i].Label < atCall[j].Label })
		for _, cl := range atCall {
			fv.hitAtCall(cl)
			env := fv.contractEnv(st, fv.entry, nil)
			if li := fv.innermostLoop(); li != nil {
				env.loop = li
			}
			for i, a := range argTerms {
				if i < len(callee.Params) {
					env.vars[fmt.Sprintf("arg%d", i)] = CVal{T: fv.term(a), S: fv.g.sortOf(callee.Params[i].Type()), Typ: callee.Params[i].Type()}
				}
			}
			t, err := env.evalBool(cl.Text)
			if err != nil {
				return nil, fmt.Errorf("%s: at-call %s assert %s: %v", fv.name, cname, cl.Label, err)
			}
			fv.emit(st, "A", shortCallee(cname)+"."+cl.Label, cl.Props, t, "holds just before the call of "+cname+": "+cl.Text, pos)
		}
	}
	if cp := strings.SplitN(cname, ".", 2)[0]; fv.g.nonnilParams[cp] && !fv.g.apiRoots[cname] {
		for i, p := range callee.Params {
			if i >= len(argTerms) {
				break
			}
			for _, f := range fv.paramFacts(st, st, p.Name(), p.Type(), fv.term(argTerms[i]), k) {
				if f.term == "true" {
					continue
				}
				fv.emit(st, "P", shortCallee(cname)+"."+f.label, fv.safetyProps(), f.term, "argument of "+cname+": "+f.text, pos).Contained = fv.hasRecover
				fv.assume(st, f.term)
			}
		}
	}
	fv.docCallArgs(st, callee, k, argTerms, pos)
	if k != nil {
		env := fv.calleeEnv(st, st, callee, argTerms, clo, nil)
		for _, cl := range k.Requires {
			t, err := env.evalBool(cl.Text)
			if err != nil {
				return nil, fmt.Errorf("%s: call of %s: requires %s: %v", fv.name, cname, cl.Label, err)
			}
			props := cl.Props
			if len(props) == 0 {
				props = fv.safetyProps()
			}
			fv.emit(st, "P", shortCallee(cname)+"."+cl.Label, props, t, "precondition of "+cname+": "+cl.Text, pos)
			fv.assume(st, t)
		}
	}
	pre := st.clone()
	fv.frameCall(st, ms, cname, pos)
	fv.havoc(st, ms, cname)
	// effects rooted at a pointer parameter change that object only
	for _, comp := range sortedKeys(ms.prm) {
		for i := range ms.prm[comp] {
			if i >= len(argTerms) {
				continue
			}
			ref := fv.term(argTerms[i])
			cs := fv.compSort(comp)
			elemSort := strings.TrimSuffix(strings.TrimPrefix(cs, "(Array Ref "), ")")
			nv := fv.c.Fresh("prm!"+comp, elemSort)
			fv.frameWrite(st, comp, ref, pos)
			fv.heapSet(st, comp, sto(fv.heapGet(st, comp), ref, nv))
		}
	}
	if k != nil {
		// `modifies <comp> at <expr>`: only the named objects change
		env := fv.calleeEnv(pre, pre, callee, argTerms, clo, nil)
		for comp, exprs := range k.ModAt {
			for _, ex := range exprs {
				v, err := env.eval(ex)
				if err != nil {
					return nil, fmt.Errorf("%s: call of %s: modifies at %s: %v", fv.name, cname, ex, err)
				}
				ref := v.T
				if v.S == sSlice {
					ref = "(s!ref " + v.T + ")"
				}
				for _, key := range fv.g.expandModKey(comp) {
					cs := fv.compSort(key)
					elemSort := strings.TrimSuffix(strings.TrimPrefix(cs, "(Array Ref "), ")")
					nv := fv.c.Fresh("modat!"+key, elemSort)
					fv.frameWrite(st, key, ref, pos)
					fv.heapSet(st, key, sto(fv.heapGet(st, key), ref, nv))
				}
			}
		}
	}
	res := fv.freshResults(st, sig, shortCallee(cname))
	if k != nil {
		env := fv.calleeEnv(st, pre, callee, argTerms, clo, res)
		for _, cl := range k.Ensures {
			if cl.Local || strings.Contains(cl.Text, "callresult(") || strings.Contains(cl.Text, "called(") {
				continue // talks about the callee's own intermediate values: proved there, not exported to callers
			}
			t, err := env.evalBool(cl.Text)
			if err != nil {
				return nil, fmt.Errorf("%s: call of %s: ensures %s: %v", fv.name, cname, cl.Label, err)
			}
			fv.assume(st, t)
		}
	}
	if k == nil || !k.ErrorIsValue {
		fv.recordErrCall(st, cname, sig, res, pos)
	}
	fv.markCalled(st, cname, pos)
	return res, nil
}

// markCalled sets the reached-flag of a call site (for called(...) in contracts).
func (fv *FnV) markCalled(st *State, cname string, pos token.Pos) {
	if fv.callFlags == nil {
		fv.callFlags = map[string][]string{}
	}
	flag := fmt.Sprintf("X|call%d", int(pos))
	st.heap[flag] = "true"
	// ... and the flag that says so for the current iteration of the loops around the call (reset at their heads)
	st.heap[fmt.Sprintf("X|iter%d", int(pos))] = "true"
	sc := shortCallee(cname)
	for _, f := range fv.callFlags[sc] {
		if f == flag {
			return
		}
	}
	fv.callFlags[sc] = append(fv.callFlags[sc], flag)
}

func sortedKeys(m map[string]map[int]bool) []string {
	var ks []string
	for k := range m {
		ks = append(ks, k)
	}
	sort.Strings(ks)
	return ks
}

func shortCallee(c string) string {
	if i := strings.Index(c, "."); i >= 0 {
		return c[i+1:]
	}
	return c
}

// effectiveMods: the declared frame when the callee has (and is verified against) one, else the inferred one.
func (g *Gen) effectiveMods(fn *ssa.Function) *ModSet {
	k := g.contractFor(canonName(fn))
	if k != nil && k.HasMods {
		ms := newModSet()
		for _, m := range k.Modifies {
			for _, key := range g.expandModKey(m) {
				ms.comps[key] = true
			}
		}
		return ms
	}
	return g.modsets[fn]
}

// expandModKey: user spelling of a component -> keys.
func (g *Gen) expandModKey(m string) []string {
	switch m {
	case "elems(any)":
		return []string{"E|Any"}
	case "map(string,any)":
		return []string{"M|Str|Any", "D|Str|Any"}
	case "map(string,bool)":
		return []string{"M|Str|Bool", "D|Str|Bool"}
	case "cell(any)":
		return []string{"C|Any"}
	case "locks":
		return []string{"G|held"}
	case "wg":
		return []string{"G|wg"}
	case "everything":
		return []string{"*"}
	}
	if strings.Contains(m, "|") {
		return []string{m}
	}
	// Type.field
	if i := strings.LastIndex(m, "."); i > 0 {
		tn, f := m[:i], m[i+1:]
		if !strings.Contains(tn, ".") {
			tn = "genql." + tn
		}
		return []string{"F|" + tn + "|" + f}
	}
	return []string{m}
}

// ---- library models ---------------------------------------------------------------

func (fv *FnV) varargElems(st *State, v ssa.Value) ([]string, bool) {
	// the variadic slice built by the compiler: slice t (new [N]any)[:]
	sl, ok := v.(*ssa.Slice)
	if !ok {
		if c, ok := v.(*ssa.Const); ok && c.Value == nil {
			return nil, true
		}
		return nil, false
	}
	al, ok := sl.X.(*ssa.Alloc)
	if !ok || sl.Low != nil || sl.High != nil {
		return nil, false
	}
	at, ok := al.Type().Underlying().(*types.Pointer).Elem().Underlying().(*types.Array)
	if !ok {
		return nil, false
	}
	ref := fv.val(al).ptr.ref
	arr := sel(fv.heapGet(st, fv.g.compElem(at.Elem())), ref)
	var out []string
	for i := int64(0); i < at.Len(); i++ {
		out = append(out, sel(arr, bvLit(i, 64)))
	}
	return out, true
}

func (fv *FnV) uf(name string, argSorts []string, res string) string {
	fn := quoteSym(name)
	if !fv.g.reg.has(fn) {
		fv.g.reg.add(fmt.Sprintf("(declare-fun %s (%s) %s)", fn, strings.Join(argSorts, " "), res), fn)
	}
	return fn
}

func (fv *FnV) nonNilError(st *State, hint string) string {
	e := fv.c.Fresh("err!"+hint, sAny)
	errT := types.Universe.Lookup("error").Type()
	fv.assume(st, and(not(eq(e, "a!nil")), fv.g.isType(e, errT), fv.wf(e, errT, st.now)))
	return e
}

func (fv *FnV) libCall(st *State, callee *ssa.Function, cc *ssa.CallCommon, pos token.Pos) (*SV, error) {
	fv.markCalled(st, "lib."+callee.Name(), pos)
	name := callee.String()
	sig := callee.Signature
	g := fv.g
	arg := func(i int) string { return fv.term(fv.val(cc.Args[i])) }
	str := func(t string) *SV { return &SV{v: Val{t, sStr}, typ: types.Typ[types.String]} }
	switch name {
	case "fmt.Sprintf":
		elems, ok := fv.varargElems(st, cc.Args[1])
		if ok {
			if c, isC := cc.Args[0].(*ssa.Const); isC && len(elems) == 1 && c.Value != nil && c.Value.ExactString() == `"%v"` {
				fv.ensureSpec("spec!FmtV", "(declare-fun spec!FmtV (Any) Str)")
				n := fv.c.Define("fmtv", sStr, app("spec!FmtV", elems[0]))
				fv.assume(st, "(ok!str "+n+")")
				return str(n), nil
			}
			sorts := []string{sStr}
			args := []string{arg(0)}
			for _, e := range elems {
				sorts = append(sorts, sAny)
				args = append(args, e)
			}
			fn := fv.uf(fmt.Sprintf("lib!Sprintf!%d", len(elems)), sorts, sStr)
			n := fv.c.Define("sprintf", sStr, app(fn, args...))
			fv.assume(st, "(ok!str "+n+")")
			return str(n), nil
		}
	case "unicode/utf8.DecodeRuneInString":
		// assumed library contract: 0 <= width <= min(4, len); width == 0 iff the string is empty (then r == RuneError);
		// an invalid encoding yields (RuneError, 1); RuneError with width 3 is the encoded replacement character
		sv := arg(0)
		r := fv.c.Fresh("rune", bvSort(32))
		w := fv.c.Fresh("width", sBV64)
		ln := "(str!len " + sv + ")"
		z := bvLit(0, 64)
		fv.assume(st, and("(bvsle "+z+" "+w+")", "(bvsle "+w+" "+bvLit(4, 64)+")", "(bvsle "+w+" "+ln+")",
			eq(eq(w, z), eq(ln, z)), implies(eq(w, z), eq(r, bvLit(0xFFFD, 32))),
			implies(not(eq(r, bvLit(0xFFFD, 32))), and("(bvsle "+bvLit(0, 32)+" "+r+")", "(bvsle "+r+" "+bvLit(0x10FFFF, 32)+")")),
			implies(and("(bvsle "+bvLit(0, 32)+" "+r+")", "(bvslt "+r+" "+bvLit(0x80, 32)+")"), eq(w, bvLit(1, 64)))))
		return &SV{tup: []SV{{v: Val{r, bvSort(32)}, typ: types.Typ[types.Rune]}, {v: Val{w, sBV64}, typ: types.Typ[types.Int]}}, typ: sig.Results()}, nil
	case "crypto/sha256.New", "crypto/sha1.New", "crypto/md5.New", "crypto/sha512.New":
		// library contract: the constructor returns a usable (non-nil) hash.Hash
		h := fv.c.Fresh("hash", sAny)
		fv.assume(st, not(eq(h, "a!nil")))
		return &SV{v: Val{h, sAny}, typ: sig.Results().At(0).Type()}, nil
	case "fmt.Errorf", "errors.New":
		e := fv.nonNilError(st, "new")
		return &SV{v: Val{e, sAny}, typ: sig.Results().At(0).Type()}, nil
	case "strconv.Atoi":
		// library contract: Atoi is a function of its text - the decimal value when the text is a decimal numeral
		// (spec!AtoiOK), an error and 0 otherwise. Another parser (ParseInt with a base, ParseFloat) is not this function.
		fv.ensureSpec("spec!Atoi", "(declare-fun spec!Atoi (Str) (_ BitVec 64))")
		fv.ensureSpec("spec!AtoiOK", "(declare-fun spec!AtoiOK (Str) Bool)")
		ok := app("spec!AtoiOK", arg(0))
		e := fv.nonNilError(st, "atoi")
		v := fv.c.Define("atoi", sBV64, ite(ok, app("spec!Atoi", arg(0)), bvLit(0, 64)))
		ev := fv.c.Define("atoierr", sAny, ite(ok, "a!nil", e))
		ares := &SV{tup: []SV{{v: Val{v, sBV64}, typ: types.Typ[types.Int]}, {v: Val{ev, sAny}, typ: sig.Results().At(1).Type()}}, typ: sig.Results()}
		fv.recordErrCall(st, name, sig, ares, pos)
		return ares, nil
	case "strings.Compare":
		fv.ensureStrCmp()
		c := app("str!cmp", arg(0), arg(1))
		return &SV{v: Val{fv.c.Define("strcmp", sBV64, ite("(< "+c+" 0)", bvLit(-1, 64), ite("(= "+c+" 0)", bvLit(0, 64), bvLit(1, 64)))), sBV64}, typ: types.Typ[types.Int]}, nil
	case "strings.ToLower", "strings.ToUpper", "strings.TrimSpace":
		fn := fv.uf("lib!"+name, []string{sStr}, sStr)
		if name == "strings.ToLower" && fv.g.reg.has("spec!ToLower") {
			fn = "spec!ToLower"
		}
		if name == "strings.ToUpper" && fv.g.reg.has("spec!ToUpper") {
			fn = "spec!ToUpper"
		}
		n := fv.c.Define("strfn", sStr, app(fn, arg(0)))
		fv.assume(st, "(ok!str "+n+")")
		return str(n), nil
	case "strings.ReplaceAll":
		fn := fv.uf("lib!"+name, []string{sStr, sStr, sStr}, sStr)
		n := fv.c.Define("strfn", sStr, app(fn, arg(0), arg(1), arg(2)))
		fv.assume(st, "(ok!str "+n+")")
		return str(n), nil
	case "math.Mod":
		fn := fv.uf("lib!math.Mod", []string{sF64, sF64}, sF64)
		if fv.g.reg.has("spec!fmod") {
			fn = "spec!fmod"
		}
		return &SV{v: Val{app(fn, arg(0), arg(1)), sF64}, typ: types.Typ[types.Float64]}, nil
	case "(*sync.Mutex).Lock", "(*sync.RWMutex).Lock", "(*sync.RWMutex).RLock":
		fv.lockOp(st, arg(0), true, pos, name)
		return &SV{typ: sig.Results()}, nil
	case "(*sync.Mutex).Unlock", "(*sync.RWMutex).Unlock", "(*sync.RWMutex).RUnlock":
		fv.lockOp(st, arg(0), false, pos, name)
		return &SV{typ: sig.Results()}, nil
	case "(*sync.WaitGroup).Add":
		w := fv.heapGet(st, "G|wg")
		fv.heapSet(st, "G|wg", sto(w, arg(0), "(+ "+sel(w, arg(0))+" (bv2int "+arg(1)+"))"))
		fv.wgEvent("add", cc.Args[0], pos)
		return &SV{typ: sig.Results()}, nil
	case "(*sync.WaitGroup).Done":
		w := fv.heapGet(st, "G|wg")
		fv.heapSet(st, "G|wg", sto(w, arg(0), "(- "+sel(w, arg(0))+" 1)"))
		fv.wgEvent("done", cc.Args[0], pos)
		return &SV{typ: sig.Results()}, nil
	case "(*sync.WaitGroup).Wait":
		fv.wgEvent("wait", cc.Args[0], pos)
		// everything forked before has finished: its writes are visible now
		ms := newModSet()
		ms.external = true
		fv.havoc(st, ms, "wg.Wait")
		fv.heapSet(st, "G|waited", sto(fv.heapGet(st, "G|waited"), arg(0), "1"))
		return &SV{typ: sig.Results()}, nil
	case "bytes.NewBufferString":
		r := fv.freshRef(st, "buf")
		b := fv.heapGet(st, "B|buf")
		fv.heapSet(st, "B|buf", sto(b, r, arg(0)))
		return fv.fromTerm(r, sig.Results().At(0).Type()), nil
	case "(*bytes.Buffer).WriteRune", "(*bytes.Buffer).WriteString", "(*bytes.Buffer).WriteByte":
		b := fv.heapGet(st, "B|buf")
		var piece string
		switch name {
		case "(*bytes.Buffer).WriteRune":
			fv.ensureStrBytes()
			fv.ensureSpec("spec!Utf8", "(declare-fun spec!Utf8 ((_ BitVec 32)) Str)")
			piece = app("spec!Utf8", arg(1))
		case "(*bytes.Buffer).WriteByte":
			fv.ensureSpec("spec!Byte1", "(declare-fun spec!Byte1 ((_ BitVec 8)) Str)")
			piece = app("spec!Byte1", arg(1))
		default:
			piece = arg(1)
		}
		fv.ensureSpec("spec!BufCat", "(declare-fun spec!BufCat (Str Str) Str)")
		fv.heapSet(st, "B|buf", sto(b, arg(0), app("spec!BufCat", sel(b, arg(0)), piece)))
		return fv.freshResults(st, sig, "bufw"), nil
	case "(*bytes.Buffer).String":
		n := fv.c.Define("bufstr", sStr, sel(fv.heapGet(st, "B|buf"), arg(0)))
		fv.assume(st, "(ok!str "+n+")")
		return str(n), nil
	case "sort.Slice":
		ms := newModSet()
		// the sorted slice: its element type and backing array
		comp, ref := "E|Any", ""
		if mi, ok := cc.Args[0].(*ssa.MakeInterface); ok {
			if stt, ok := mi.X.Type().Underlying().(*types.Slice); ok {
				comp = g.compElem(stt.Elem())
				ref = "(s!ref " + fv.term(fv.val(mi.X)) + ")"
			}
		}
		if ref == "" {
			x := arg(0)
			sl := g.unbox(fv.c, x, types.NewSlice(types.NewInterfaceType(nil, nil)))
			ref = "(s!ref " + sl + ")"
		}
		ms.comps[comp] = true
		g.dynMods(cc.Args[1], ms)
		fv.frameCall(st, ms, "sort.Slice", pos)
		// only the elements of the sorted slice are permuted
		fv.frameWrite(st, comp, ref, pos)
		fv.havoc(st, ms, "sort.Slice")
		return &SV{typ: sig.Results()}, nil
	}
	if strings.HasPrefix(name, "maps.Copy[") || name == "maps.Copy" {
		mt := cc.Args[0].Type().Underlying().(*types.Map)
		dst := arg(0)
		dk, vk := g.compMapDom(mt), g.compMapVal(mt)
		fv.safety(st, "mapstore", or(not(eq(dst, "nil!ref")), "false"), pos)
		fv.frameWrite(st, vk, dst, pos)
		d, vv := fv.heapGet(st, dk), fv.heapGet(st, vk)
		nd := fv.c.Fresh("copied!dom", fmt.Sprintf("(Array %s Bool)", g.sortOf(mt.Key())))
		nv := fv.c.Fresh("copied!val", fmt.Sprintf("(Array %s %s)", g.sortOf(mt.Key()), g.sortOf(mt.Elem())))
		fv.heapSet(st, dk, sto(d, dst, nd))
		fv.heapSet(st, vk, sto(vv, dst, nv))
		return &SV{typ: sig.Results()}, nil
	}
	// generic: pure functions give fresh results; pure scalar functions are deterministic
	lm := g.libModSet(callee, cc)
	if lm == nil {
		lm = newModSet()
		lm.external = true
		g.abstracted["unmodelled library call "+name]++
	}
	if lm.all || lm.external || len(lm.comps) > 0 {
		fv.frameCall(st, lm, name, pos)
		fv.havoc(st, lm, name)
	}
	res := fv.freshResults(st, sig, sanitize(callee.Name()))
	switch name {
	case "strings.Split", "strings.SplitN":
		// library contract: splitting around a non-empty separator yields at least one piece (n == 0 excepted)
		if c, ok := cc.Args[1].(*ssa.Const); ok && c.Value != nil && constant.StringVal(c.Value) != "" {
			nOK := name == "strings.Split"
			if !nOK {
				if n, ok := cc.Args[2].(*ssa.Const); ok && n.Value != nil && n.Int64() != 0 {
					nOK = true
				}
			}
			if nOK {
				fv.assume(st, "(bvsle "+bvLit(1, 64)+" (s!len "+res.v.T+"))")
			}
		}
	case "(*regexp.Regexp).FindAllString":
		// a pattern whose every match has at least one character (decided from the pattern's syntax tree) yields non-empty matches
		if u, ok := cc.Args[0].(*ssa.UnOp); ok {
			if gl, ok := u.X.(*ssa.Global); ok {
				if pat, ok := g.globalPattern(gl); ok && patternMinLen(pat) >= 1 {
					et := types.Typ[types.String]
					arr := sel(fv.heapGet(st, g.compElem(et)), "(s!ref "+res.v.T+")")
					fv.assume(st, fmt.Sprintf("(forall ((i!m (_ BitVec 64))) (! (=> (and (bvsle %s i!m) (bvslt i!m (s!len %s))) (bvslt %s (str!len (select %s (bvadd (s!off %s) i!m))))) :pattern ((select %s (bvadd (s!off %s) i!m)))))",
						bvLit(0, 64), res.v.T, bvLit(0, 64), arr, res.v.T, arr, res.v.T))
				}
			}
		}
	}
	// deterministic for scalar-only signatures
	if len(lm.comps) == 0 && !lm.all && !lm.external {
		allScalar := true
		var sorts, args []string
		for i, a := range cc.Args {
			s := g.sortOf(a.Type())
			if s == sRef || s == sSlice || strings.HasPrefix(s, "(Array") {
				allScalar = false
			}
			sorts = append(sorts, s)
			args = append(args, arg(i))
		}
		if allScalar {
			r := sig.Results()
			for i := 0; i < r.Len(); i++ {
				rs := g.sortOf(r.At(i).Type())
				if rs == sSlice || rs == sRef {
					continue
				}
				fn := fv.uf(fmt.Sprintf("lib!%s!%d", name, i), sorts, rs)
				var rt string
				if r.Len() == 1 {
					rt = res.v.T
				} else {
					rt = res.tup[i].v.T
				}
				fv.assume(st, eq(rt, app(fn, args...)))
			}
		}
	}
	fv.recordErrCall(st, name, sig, res, pos)
	return res, nil
}

func (fv *FnV) ensureSpec(sym, decl string) {
	if !fv.g.reg.has(sym) {
		fv.g.reg.add(decl, sym)
	}
}

func (fv *FnV) ensureStrCmp() {
	// total order axioms are in the spec prelude (module strcmp)
}

// ---- builtins -----------------------------------------------------------------------

func (fv *FnV) builtin(st *State, ins ssa.Instruction, b *ssa.Builtin, cc *ssa.CallCommon, pos token.Pos) (*SV, error) {
	g := fv.g
	intT := types.Typ[types.Int]
	switch b.Name() {
	case "len", "cap":
		x := fv.val(cc.Args[0])
		var t string
		switch xt := cc.Args[0].Type().Underlying().(type) {
		case *types.Slice:
			if b.Name() == "len" {
				t = "(s!len " + x.v.T + ")"
			} else {
				t = "(s!cap " + x.v.T + ")"
			}
		case *types.Basic:
			t = "(str!len " + x.v.T + ")"
		case *types.Map:
			fv.guardedAccess(st, cc.Args[0], pos, "read")
			t = fv.mapLen(st, xt, x.v.T)
		case *types.Array:
			t = bvLit(xt.Len(), 64)
		case *types.Pointer:
			t = bvLit(xt.Elem().Underlying().(*types.Array).Len(), 64)
		default:
			panic(unsupported("len of " + cc.Args[0].Type().String()))
		}
		return &SV{v: Val{fv.c.Define("len", sBV64, t), sBV64}, typ: intT}, nil
	case "append":
		return fv.doAppend(st, cc, pos)
	case "delete":
		mt := cc.Args[0].Type().Underlying().(*types.Map)
		fv.guardedAccess(st, cc.Args[0], pos, "write")
		fv.curWriteTarget = cc.Args[0]
		fv.mapDelete(st, mt, fv.val(cc.Args[0]).v.T, fv.term(fv.val(cc.Args[1])), pos)
		fv.curWriteTarget = nil
		return &SV{typ: cc.Signature().Results()}, nil
	case "recover":
		r := fv.c.Fresh("recovered", sAny)
		fv.assume(st, implies(not(fv.panickingTerm()), eq(r, "a!nil")))
		fv.assume(st, fv.wf(r, types.NewInterfaceType(nil, nil), st.now))
		return &SV{v: Val{r, sAny}, typ: types.NewInterfaceType(nil, nil)}, nil
	case "copy":
		fv.sharedStorageWrite(st, cc.Args[0], pos, "copy")
		st2 := cc.Args[0].Type().Underlying().(*types.Slice)
		k := g.compElem(st2.Elem())
		dst := fv.val(cc.Args[0]).v.T
		fv.frameWrite(st, k, "(s!ref "+dst+")", pos)
		h := fv.heapGet(st, k)
		na := fv.c.Fresh("copied", fmt.Sprintf("(Array (_ BitVec 64) %s)", g.sortOf(st2.Elem())))
		fv.heapSet(st, k, sto(h, "(s!ref "+dst+")", na))
		n := fv.c.Fresh("ncopied", sBV64)
		fv.assume(st, and("(bvsle #x0000000000000000 "+n+")", "(bvsle "+n+" (s!len "+dst+"))"))
		return &SV{v: Val{n, sBV64}, typ: intT}, nil
	case "print", "println":
		return &SV{typ: cc.Signature().Results()}, nil
	case "min", "max":
		x, y := fv.val(cc.Args[0]).v, fv.val(cc.Args[1]).v
		if isBV(x.S) && len(cc.Args) == 2 {
			lt := "bvslt"
			if !isSigned(cc.Args[0].Type()) {
				lt = "bvult"
			}
			c := "(" + lt + " " + x.T + " " + y.T + ")"
			if b.Name() == "max" {
				c = not(c)
			}
			return &SV{v: Val{ite(c, x.T, y.T), x.S}, typ: cc.Args[0].Type()}, nil
		}
	}
	if b.Name() == "close" {
		fv.channelOp(st, "close of a channel", pos)
		return &SV{typ: cc.Signature().Results()}, nil
	}
	panic(unsupported("builtin " + b.Name()))
}

func (fv *FnV) mapLen(st *State, mt *types.Map, m string) string {
	ks := fv.g.sortOf(mt.Key())
	fn := fv.uf("card!"+sanitize(ks), []string{fmt.Sprintf("(Array %s Bool)", ks)}, sBV64)
	d := sel(fv.heapGet(st, fv.g.compMapDom(mt)), m)
	n := fv.c.Define("maplen", sBV64, ite(eq(m, "nil!ref"), bvLit(0, 64), app(fn, d)))
	empty := fmt.Sprintf("((as const (Array %s Bool)) false)", ks)
	fv.c.AddFact(n, and("(bvsle #x0000000000000000 "+n+")", implies(not(eq(m, "nil!ref")), eq(eq(n, bvLit(0, 64)), eq(d, empty)))))
	return n
}

func (fv *FnV) doAppend(st *State, cc *ssa.CallCommon, pos token.Pos) (*SV, error) {
	g := fv.g
	sT := cc.Args[0].Type().Underlying().(*types.Slice)
	et := sT.Elem()
	k := g.compElem(et)
	s := fv.val(cc.Args[0]).v.T
	var addLen string
	single := ""
	if elems, ok := fv.varargElems(st, cc.Args[1]); ok && len(elems) == 1 {
		single = fv.c.Define("appended", g.sortOf(et), elems[0])
		addLen = bvLit(1, 64)
	} else if ok && len(elems) == 0 {
		return fv.fromTerm(s, cc.Args[0].Type()), nil
	} else {
		t := fv.val(cc.Args[1])
		if t.v.S == sStr { // append([]byte, string...)
			addLen = "(str!len " + t.v.T + ")"
		} else {
			addLen = "(s!len " + t.v.T + ")"
		}
	}
	if fv.k != nil {
		site := fv.siteText(pos, "call")
		var cls []*Clause
		for key, list := range fv.k.CallAsserts {
			if key == "append" || (strings.HasPrefix(key, "append:") && strings.Contains(site, strings.TrimPrefix(key, "append:"))) {
				cls = append(cls, list...)
			}
			if li := fv.innermostLoop(); li != nil && key == fmt.Sprintf("append@loop%d", li.ordinal) {
				cls = append(cls, list...)
			}
		}
		for _, cl := range cls {
			env := fv.contractEnv(st, fv.entry, nil)
			if li := fv.innermostLoop(); li != nil {
				env.loop = li
			}
			if single == "" {
				if strings.Contains(cl.Text, "appended") {
					continue // the clause speaks about the one appended element; this site appends a whole slice
				}
			} else {
				env.vars["appended"] = CVal{T: single, S: g.sortOf(et), Typ: et}
			}
			fv.hitAtCall(cl)
			env.vars["target"] = CVal{T: s, S: sSlice, Typ: cc.Args[0].Type()}
			t, err := env.evalBool(cl.Text)
			if err != nil {
				return nil, fmt.Errorf("%s: at-call append assert %s: %v", fv.name, cl.Label, err)
			}
			fv.emit(st, "A", "append."+cl.Label, cl.Props, t, "holds for the element appended here: "+cl.Text, pos)
		}
	}
	newLen := fv.c.Define("applen", sBV64, "(bvadd (s!len "+s+") "+addLen+")")
	inPlace := fv.c.Define("inplace", sBV64[:0]+sBool, "(bvsle "+newLen+" (s!cap "+s+"))")
	h := fv.heapGet(st, k)
	// growing: a fresh backing array; by convention it keeps the offset of the old one, which no program can observe
	r2 := fv.freshRef(st, "grown")
	cap2 := fv.c.Fresh("newcap", sBV64)
	fv.assume(st, and("(bvsle "+newLen+" "+cap2+")", "(bvsle "+cap2+" #x0000010000000000)"))
	var inArr, grownArr string
	oldArr := sel(h, "(s!ref "+s+")")
	at := "(bvadd (s!off " + s + ") (s!len " + s + "))"
	if single != "" {
		inArr = sto(oldArr, at, single)
		grownArr = inArr
	} else {
		// bulk append: the appended region is a copy of the source; contents are related through the sequence view
		fa := fv.c.Fresh("appended!arr", fmt.Sprintf("(Array (_ BitVec 64) %s)", g.sortOf(et)))
		inArr, grownArr = fa, fa
		fv.bulkAppendFacts(st, fa, oldArr, s, cc.Args[1], et)
	}
	// frame: the in-place case writes the existing backing array
	// (appending nothing writes nothing)
	fv.frameWriteCond(st, k, "(s!ref "+s+")", and(inPlace, not(eq(addLen, bvLit(0, 64)))), pos)
	fv.dOrderCheck(st, pos)
	nh := ite(inPlace, sto(h, "(s!ref "+s+")", inArr), sto(h, r2, grownArr))
	fv.heapSet(st, k, nh)
	out := ite(inPlace, app("mk!slice", "(s!ref "+s+")", "(s!off "+s+")", newLen, "(s!cap "+s+")"),
		app("mk!slice", r2, "(s!off "+s+")", newLen, cap2))
	n := fv.c.Define("app", sSlice, out)
	return fv.fromTerm(n, cc.Args[0].Type()), nil
}

// bulkAppendFacts relates the result of append(s, t...) to its inputs for the first few elements of t and through lengths.
func (fv *FnV) bulkAppendFacts(st *State, res, oldArr, s string, tv ssa.Value, et types.Type) {
	// prefix preserved: res agrees with old on [off, off+len) -- stated with a quantifier-free skolem-free schema on demand only.
	if !fv.g.reg.has("arr!agree!" + sanitize(fv.g.sortOf(et))) {
		es := fv.g.sortOf(et)
		fv.g.reg.add(fmt.Sprintf("(declare-fun %s ((Array (_ BitVec 64) %s) (Array (_ BitVec 64) %s) (_ BitVec 64) (_ BitVec 64)) Bool)", quoteSym("arr!agree!"+sanitize(es)), es, es), quoteSym("arr!agree!"+sanitize(es)))
	}
	fn := quoteSym("arr!agree!" + sanitize(fv.g.sortOf(et)))
	fv.assume(st, app(fn, res, oldArr, "(s!off "+s+")", "(s!len "+s+")"))
}

// ---- go statements -----------------------------------------------------------------------

func (fv *FnV) doGo(st *State, ins *ssa.Go) error {
	cc := ins.Common()
	mc, ok := cc.Value.(*ssa.MakeClosure)
	if !ok {
		ms := newModSet()
		ms.external = true
		fv.havoc(st, ms, "go")
		return nil
	}
	f := mc.Fn.(*ssa.Function)
	// cells captured and written by the goroutine are lent to it until a join
	for i, b := range mc.Bindings {
		al, ok := b.(*ssa.Alloc)
		if !ok {
			continue
		}
		fvv := f.FreeVars[i]
		written := false
		for _, ref := range *fvv.Referrers() {
			if s, ok := ref.(*ssa.Store); ok && s.Addr == fvv {
				written = true
			}
		}
		if written {
			fv.lent[al] = ins.Pos()
		}
	}
	fv.goSites = append(fv.goSites, ins)
	ms := newModSet()
	if m, ok := fv.g.modsets[f]; ok {
		ms.union(m.flat())
	} else {
		ms.external = true
	}
	fv.havoc(st, ms, "go "+f.Name())
	return nil
}

// ---- returns -------------------------------------------------------------------------------

func (fv *FnV) doReturn(st *State, ins *ssa.Return) error {
	fv.retCount++
	sig := fv.fn.Signature
	var results []*SV
	for _, r := range ins.Results {
		results = append(results, fv.val(r))
	}
	pos := ins.Pos()
	// postconditions
	if fv.k != nil && fv.k.Trusted == "" {
		env := fv.contractEnv(st, fv.entry, results)
		env.asGoal = true
		if li := fv.innermostLoop(); li != nil {
			env.loop = li
		}
		for _, cl := range fv.k.Ensures {
			if cl.Defn {
				fv.g.definitional[fv.name+"."+cl.Label] = cl.Text
				continue
			}
			t, err := env.evalBool(cl.Text)
			if err != nil {
				return fmt.Errorf("%s: ensures %s: %v", fv.name, cl.Label, err)
			}
			fv.addPending(st, "E", cl.Label, cl.Props, t, "postcondition (at every return): "+cl.Text, fv.fn.Pos())
			fv.pending["E."+cl.Label].cl = cl
		}
	}
	// error propagation
	if sig.Results().Len() > 0 && isErrorType(sig.Results().At(sig.Results().Len()-1).Type()) {
		retErr := fv.term(results[len(results)-1])
		fv.errorChecks(st, "return", not(eq(retErr, "a!nil")), pos, false)
	} else if len(fv.errCalls) > 0 {
		fv.errorChecks(st, "return", "false", pos, false)
	}
	// locks are released on return
	fv.lockBalanceAtReturn(st, pos)
	return nil
}

// errorChecks: every error obtained from a call on this path and non-nil must make `propagated` true.
func (fv *FnV) errorChecks(st *State, where string, propagated string, pos token.Pos, backedge bool) {
	var props []string
	if fv.k != nil {
		props = fv.k.ErrorTags
	}
	ids := make([]int, 0)
	for _, ec := range fv.errCalls {
		ids = append(ids, ec.id)
	}
	sort.Ints(ids)
	for _, id := range ids {
		ec := fv.errCalls[id]
		hit, ok := st.heap[fmt.Sprintf("X|%d", id)]
		if !ok || hit == "false" {
			continue
		}
		if ec.absorbed != "" {
			continue
		}
		goal := implies(and(hit, not(eq(ec.errV, "a!nil"))), propagated)
		label := shortCallee(ec.callee) + "@" + fv.siteText(ec.pos, "call")
		if backedge {
			label += ".continue"
		}
		fv.addPending(st, "X", label, props, goal, "an error returned by "+ec.callee+" is propagated (checked at every return and loop back edge)", ec.pos)
	}
}

func (fv *FnV) hitAtCall(cl *Clause) {
	if fv.atCallHit == nil {
		fv.atCallHit = map[*Clause]bool{}
	}
	fv.atCallHit[cl] = true
}

// libAtCall: at-call assertions on a library callee (named by its bare function name, e.g. ParseFloat).
func (fv *FnV) libAtCall(st *State, callee *ssa.Function, cc *ssa.CallCommon, pos token.Pos) error {
	if fv.k == nil || len(fv.k.CallAsserts) == 0 {
		return nil
	}
	name := callee.Name()
	site := fv.siteText(pos, "call")
	var atCall []*Clause
	for key, list := range fv.k.CallAsserts {
		if key == name || (strings.HasPrefix(key, name+":") && strings.Contains(site, strings.TrimPrefix(key, name+":"))) {
			atCall = append(atCall, list...)
		}
	}
	sort.Slice(atCall, func(i, j int) bool { return atCall[i].Label < atCall[j].Label })
	for _, cl := range atCall {
		fv.hitAtCall(cl)
		env := fv.contractEnv(st, fv.entry, nil)
		if li := fv.innermostLoop(); li != nil {
			env.loop = li
		}
		for i, a := range cc.Args {
			env.vars[fmt.Sprintf("arg%d", i)] = CVal{T: fv.term(fv.val(a)), S: fv.g.sortOf(a.Type()), Typ: a.Type()}
		}
		if sig := callee.Signature; sig.Variadic() && len(cc.Args) == sig.Params().Len() {
			// the elements of the variadic slice the compiler built at this site: vararg0, vararg1, ...
			if elems, ok := fv.varargElems(st, cc.Args[len(cc.Args)-1]); ok {
				et := sig.Params().At(sig.Params().Len() - 1).Type().(*types.Slice).Elem()
				for i, el := range elems {
					env.vars[fmt.Sprintf("vararg%d", i)] = CVal{T: el, S: fv.g.sortOf(et), Typ: et}
				}
				env.vars["varargs"] = CVal{T: bvLit(int64(len(elems)), 64), S: sBV64, Typ: types.Typ[types.Int]}
			}
		}
		t, err := env.evalBool(cl.Text)
		if err != nil {
			return fmt.Errorf("%s: at-call %s assert %s: %v", fv.name, name, cl.Label, err)
		}
		fv.emit(st, "A", name+"."+cl.Label, cl.Props, t, "holds just before the call of "+callee.String()+": "+cl.Text, pos)
	}
	return nil
}
