package main

// Loading of the SMT prelude (/verif/spec/*.smt2): spec functions, lemmas and
// axioms. Each top-level form becomes a registry declaration; assertions are
// included in a query when every prelude symbol they mention is in its cone.

import (
	"fmt"
	"os"
	"path/filepath"
	"sort"
	"strings"
)

type specSig struct {
	args []string
	res  string
}

// topForms splits SMT text into top-level s-expressions.
func topForms(s string) []string {
	var out []string
	depth, start := 0, -1
	for i := 0; i < len(s); i++ {
		switch s[i] {
		case ';':
			for i < len(s) && s[i] != '\n' {
				i++
			}
		case '|':
			j := strings.IndexByte(s[i+1:], '|')
			if j < 0 {
				return out
			}
			i += j + 1
		case '"':
			j := strings.IndexByte(s[i+1:], '"')
			if j < 0 {
				return out
			}
			i += j + 1
		case '(':
			if depth == 0 {
				start = i
			}
			depth++
		case ')':
			depth--
			if depth == 0 && start >= 0 {
				out = append(out, s[start:i+1])
				start = -1
			}
		}
	}
	return out
}

// sexp: minimal reader for signatures
type sx struct {
	atom string
	list []*sx
}

func readSx(s string, i int) (*sx, int) {
	for i < len(s) && (s[i] == ' ' || s[i] == '\n' || s[i] == '\t') {
		i++
	}
	if i >= len(s) {
		return nil, i
	}
	if s[i] == '(' {
		n := &sx{list: []*sx{}}
		i++
		for {
			for i < len(s) && (s[i] == ' ' || s[i] == '\n' || s[i] == '\t') {
				i++
			}
			if i >= len(s) {
				return n, i
			}
			if s[i] == ')' {
				return n, i + 1
			}
			if s[i] == ';' {
				for i < len(s) && s[i] != '\n' {
					i++
				}
				continue
			}
			var c *sx
			c, i = readSx(s, i)
			if c == nil {
				return n, i
			}
			n.list = append(n.list, c)
		}
	}
	if s[i] == '|' {
		j := strings.IndexByte(s[i+1:], '|')
		return &sx{atom: s[i : i+j+2]}, i + j + 2
	}
	j := i
	for j < len(s) && !strings.ContainsRune("() \n\t", rune(s[j])) {
		j++
	}
	return &sx{atom: s[i:j]}, j
}

func (n *sx) String() string {
	if n.list == nil {
		return n.atom
	}
	var ps []string
	for _, c := range n.list {
		ps = append(ps, c.String())
	}
	return "(" + strings.Join(ps, " ") + ")"
}

func (g *Gen) loadSpec(dir string) error {
	files, _ := filepath.Glob(filepath.Join(dir, "*.smt2"))
	sort.Strings(files)
	specSyms := map[string]bool{}
	for _, f := range files {
		b, err := os.ReadFile(f)
		if err != nil {
			return err
		}
		for _, form := range topForms(string(b)) {
			n, _ := readSx(form, 0)
			if n == nil || len(n.list) == 0 {
				continue
			}
			head := n.list[0].atom
			switch head {
			case "declare-fun":
				name := n.list[1].atom
				var args []string
				for _, a := range n.list[2].list {
					args = append(args, a.String())
				}
				g.specSigs[name] = specSig{args, n.list[3].String()}
				g.reg.add(form, name)
				specSyms[name] = true
			case "declare-const":
				name := n.list[1].atom
				g.specSigs[name] = specSig{nil, n.list[2].String()}
				g.reg.add(form, name)
				specSyms[name] = true
			case "define-fun", "define-fun-rec":
				name := n.list[1].atom
				var args []string
				for _, a := range n.list[2].list {
					args = append(args, a.list[1].String())
				}
				g.specSigs[name] = specSig{args, n.list[3].String()}
				if head == "define-fun-rec" {
					// register the symbol first so that the body's self reference is not a dangling dependency
					g.reg.add(form, name)
				} else {
					g.reg.add(form, name)
				}
				specSyms[name] = true
			case "define-funs-rec":
				var names []string
				for _, d := range n.list[1].list {
					name := d.list[0].atom
					var args []string
					for _, a := range d.list[1].list {
						args = append(args, a.list[1].String())
					}
					g.specSigs[name] = specSig{args, d.list[2].String()}
					names = append(names, name)
					specSyms[name] = true
				}
				g.reg.add(form, names...)
			case "declare-sort", "define-sort":
				g.reg.add(form, n.list[1].atom)
			case "declare-datatypes":
				var syms []string
				for _, d := range n.list[1].list {
					syms = append(syms, d.list[0].atom)
				}
				for _, dt := range n.list[2].list {
					for _, ctor := range dt.list {
						syms = append(syms, ctor.list[0].atom)
						for _, f := range ctor.list[1:] {
							syms = append(syms, f.list[0].atom)
						}
					}
				}
				g.reg.add(form, syms...)
			case "assert":
				var trig []string
				seen := map[string]bool{}
				for _, t := range tokens(form) {
					if (specSyms[t] || t == "str!cmp" || t == "str!len" || t == "str!at" || t == "str!cat" || t == "str!sub") && !seen[t] {
						seen[t] = true
						trig = append(trig, t)
					}
				}
				if len(trig) == 0 {
					return fmt.Errorf("%s: assertion mentions no prelude symbol: %s", f, form)
				}
				g.reg.addAxiom(form, trig...)
				g.specAxioms = append(g.specAxioms, form)
			default:
				return fmt.Errorf("%s: unsupported prelude form %q in %.80q", f, head, form)
			}
		}
	}
	return nil
}
