package main

// Ghost-state obligations: frames (F), locks and ownership (L), wait-group
// protocol, order dependence on map iteration (D).

import (
	"fmt"
	"go/token"
	"go/types"
	"strings"

	"golang.org/x/tools/go/ssa"
)

func (fv *FnV) frameProps() []string {
	if fv.k != nil {
		return fv.k.FrameTags
	}
	return nil
}

func (fv *FnV) declaredMods() *ModSet {
	ms := newModSet()
	if fv.k == nil {
		return ms
	}
	for _, m := range fv.k.Modifies {
		for _, key := range fv.g.expandModKey(m) {
			if key == "*" {
				ms.all = true
			}
			ms.comps[key] = true
		}
	}
	return ms
}

// frameWrite: a heap write at (comp, ref) must be inside the declared frame or target an object allocated by this activation.
func (fv *FnV) frameWrite(st *State, comp, ref string, pos token.Pos) {
	fv.frameWriteCond(st, comp, ref, "true", pos)
}

func (fv *FnV) frameWriteCond(st *State, comp, ref, cond string, pos token.Pos) {
	fv.docWrite(st, comp, ref, cond, pos)
	if fv.k == nil || !fv.k.HasMods {
		return
	}
	if fv.declaredMods().covers(comp) {
		return
	}
	fv.bornFn()
	alts := []string{"(>= (birth " + ref + ") " + fv.now0 + ")"}
	for spelled, exprs := range fv.k.ModAt {
		for _, key := range fv.g.expandModKey(spelled) {
			if key != comp {
				continue
			}
			env := fv.contractEnv(fv.entry, fv.entry, nil)
			for _, ex := range exprs {
				if v, err := env.eval(ex); err == nil {
					r := v.T
					if v.S == sSlice {
						r = "(s!ref " + v.T + ")"
					}
					alts = append(alts, eq(ref, r))
				}
			}
		}
	}
	goal := implies(cond, or(alts...))
	fv.emit(st, "F", comp+":"+fv.siteText(pos, "mapstore"), fv.frameProps(), goal,
		"write to "+comp+" targets an object allocated by this activation (frame: modifies "+strings.Join(fv.k.Modifies, " ")+")", pos)
}

// frameCall: a callee's frame must be inside the caller's.
func (fv *FnV) frameCall(st *State, ms *ModSet, callee string, pos token.Pos) {
	if fv.k == nil || !fv.k.HasMods || fv.k.Trusted != "" {
		return
	}
	decl := fv.declaredMods()
	for spelled := range fv.k.ModAt {
		for _, key := range fv.g.expandModKey(spelled) {
			decl.comps[key] = true
		}
	}
	if decl.all {
		return
	}
	var extra []string
	if ms.all || ms.external {
		if !fv.k.AssumeUserFn {
			extra = append(extra, "(anything reachable: unknown code)")
		}
	}
	for _, k := range ms.keys() {
		if !decl.covers(k) && !strings.HasPrefix(k, "G|") && !strings.HasPrefix(k, "B|") {
			extra = append(extra, k)
		}
	}
	if len(extra) == 0 {
		return
	}
	o := fv.emit(st, "F", "call:"+shortCallee(callee)+"@"+fv.siteText(pos, "call"), fv.frameProps(), "false",
		"frame of callee "+callee+" is included in this function's frame", pos)
	o.Static = "fails: callee may write " + strings.Join(extra, ", ")
	o.Script = ""
}

// ---- locks -----------------------------------------------------------------------

func (fv *FnV) lockProps() []string {
	if fv.k != nil {
		return fv.k.LockTags
	}
	return nil
}

func (fv *FnV) lockOp(st *State, m string, lock bool, pos token.Pos, what string) {
	h := fv.heapGet(st, "G|held")
	cur := sel(h, m)
	seen := false
	for _, s := range fv.lockSites {
		if s == m {
			seen = true
		}
	}
	if !seen {
		fv.lockSites = append(fv.lockSites, m)
	}
	if lock {
		fv.lockPanicSafe(st, m, pos)
		fv.emit(st, "L", "lock-not-held:"+fv.siteText(pos, "call"), fv.lockProps(), eq(cur, "0"), "the mutex is not already held by this activation (self-deadlock)", pos)
		fv.heapSet(st, "G|held", sto(h, m, "1"))
	} else {
		fv.emit(st, "L", "unlock-held:"+fv.siteText(pos, "call"), fv.lockProps(), not(eq(cur, "0")), "unlock of a held mutex", pos)
		fv.heapSet(st, "G|held", sto(h, m, "0"))
	}
}

func (fv *FnV) lockBalanceAtReturn(st *State, pos token.Pos) {
	for _, m := range fv.lockSites {
		cur := sel(fv.heapGet(st, "G|held"), m)
		old := sel(fv.heapGet(fv.entry, "G|held"), m)
		fv.addPending(st, "L", "balanced:"+m, fv.lockProps(), eq(cur, old), "every return leaves the mutex as it found it", fv.fn.Pos())
	}
}

// guardedAccess: reads/writes of a global declared guarded_by(m), or of the map it holds, need m held.
func (fv *FnV) guardedAccess(st *State, v ssa.Value, pos token.Pos, mode string) {
	var gd *GlobalDecl
	switch x := v.(type) {
	case *ssa.FreeVar:
		if fv.k == nil {
			return
		}
		mn, ok := fv.k.GuardedFree[x.Name()]
		if !ok {
			return
		}
		for _, f := range fv.fn.FreeVars {
			if f.Name() == mn {
				m := fv.term(fv.val(f))
				held := not(eq(sel(fv.heapGet(st, "G|held"), m), "0"))
				fv.emit(st, "L", "guarded:"+x.Name()+":"+mode, fv.lockProps(), held, mode+" of the shared variable "+x.Name()+" happens with "+mn+" held", pos)
				return
			}
		}
		o := fv.emit(st, "L", "guarded:"+x.Name()+":"+mode, fv.lockProps(), "false", "the mutex "+mn+" guarding "+x.Name()+" is captured by the closure", pos)
		o.Static = "fails: " + mn + " is not captured"
		o.Script = ""
		return
	case *ssa.Global:
		gd = fv.g.globalsDecl[x.Pkg.Pkg.Name()+"."+x.Name()]
	default:
		if gf, ok := fv.guardedFields[v]; ok {
			props := mergeProps(fv.lockProps(), gf.decl.Props)
			bp := fv.ptrOf(gf.base)
			has := false
			var mt types.Type
			for i := 0; i < gf.st.NumFields(); i++ {
				if gf.st.Field(i).Name() == gf.decl.Mutex {
					has = true
					mt = gf.st.Field(i).Type()
				}
			}
			what := gf.decl.Struct + "." + gf.decl.Field
			if !has {
				o := fv.emit(st, "L", "guarded-field:"+what+":"+fv.siteText(pos, "index"), props, "false", "the mutex field "+gf.decl.Mutex+" that guards "+what+" exists", pos)
				o.Static = "fails: " + gf.decl.Struct + " has no field " + gf.decl.Mutex
				o.Script = ""
				return
			}
			m := fv.ptrRef(fv.fieldPtr(bp, gf.typ, gf.decl.Mutex, mt))
			held := not(eq(sel(fv.heapGet(st, "G|held"), m), "0"))
			fv.emit(st, "L", "guarded-field:"+what+":"+fv.siteText(pos, "index"), props, held, mode+" of "+what+" happens with "+gf.decl.Mutex+" of the same object held", pos)
			return
		}
		gd = fv.guardedVals[v]
	}
	if gd == nil || gd.Kind != "guarded_by" {
		return
	}
	if n := fv.fn.Name(); n == "init" || strings.HasPrefix(n, "init#") {
		return // package initialisation happens before any other goroutine can run
	}
	mg := fv.g.spkgs[fv.pkgTypes().Path()].Members[gd.Mutex]
	mglob, ok := mg.(*ssa.Global)
	if !ok {
		return
	}
	m := fv.val(mglob).v.T
	held := not(eq(sel(fv.heapGet(st, "G|held"), m), "0"))
	fv.emit(st, "L", "guarded:"+gd.Name+":"+fv.siteText(pos, "index"), fv.lockProps(), held, mode+" of "+gd.Name+" happens with "+gd.Mutex+" held", pos)
}

// storage of a guarded captured slice: a value loaded from a captured variable that is `guarded x by m`, and every
// re-slice of it, shares the variable's backing array; writing its elements (an element store, copy) needs m like the
// variable itself - reserving slots under the lock and filling them after the unlock loses them when another worker's
// append moves the array in between.
func (fv *FnV) sharedStorage(v ssa.Value) (string, bool) {
	name, ok := fv.guardedSlices[v]
	return name, ok
}

func (fv *FnV) markSharedStorage(v ssa.Value, from ssa.Value) {
	if fv.k == nil || len(fv.k.GuardedFree) == 0 {
		return
	}
	if _, isSlice := v.Type().Underlying().(*types.Slice); !isSlice {
		return
	}
	name := ""
	if fvr, ok := from.(*ssa.FreeVar); ok {
		if _, guarded := fv.k.GuardedFree[fvr.Name()]; guarded {
			name = fvr.Name()
		}
	} else if n, ok := fv.guardedSlices[from]; ok {
		name = n
	}
	if name == "" {
		return
	}
	if fv.guardedSlices == nil {
		fv.guardedSlices = map[ssa.Value]string{}
	}
	fv.guardedSlices[v] = name
}

// sharedStorageWrite: the elements of a guarded captured slice are written with its mutex held.
func (fv *FnV) sharedStorageWrite(st *State, v ssa.Value, pos token.Pos, how string) {
	name, ok := fv.sharedStorage(v)
	if !ok {
		return
	}
	mn := fv.k.GuardedFree[name]
	for _, f := range fv.fn.FreeVars {
		if f.Name() == mn {
			m := fv.term(fv.val(f))
			held := not(eq(sel(fv.heapGet(st, "G|held"), m), "0"))
			fv.emit(st, "L", "guarded-storage:"+name+":"+fv.siteText(pos, "call"), fv.lockProps(), held, how+" into the storage of the shared slice "+name+" happens with "+mn+" held", pos)
			return
		}
	}
}

func (fv *FnV) markGuarded(v ssa.Value, from ssa.Value) {
	// a value loaded from a struct field that is declared `field S.f guarded_by m`
	if fa, ok := from.(*ssa.FieldAddr); ok && len(fv.g.fieldsDecl) > 0 {
		if pt, ok := fa.X.Type().Underlying().(*types.Pointer); ok {
			if st, ok := pt.Elem().Underlying().(*types.Struct); ok {
				name := structName(st)
				if nt, ok := types.Unalias(pt.Elem()).(*types.Named); ok {
					name = nt.Obj().Name()
				}
				if fd := fv.g.fieldsDecl[name+"."+st.Field(fa.Field).Name()]; fd != nil {
					if fv.guardedFields == nil {
						fv.guardedFields = map[ssa.Value]guardedField{}
					}
					fv.guardedFields[v] = guardedField{decl: fd, base: fa.X, st: st, typ: pt.Elem()}
				}
			}
		}
	}
	if g, ok := from.(*ssa.Global); ok {
		if gd := fv.g.globalsDecl[g.Pkg.Pkg.Name()+"."+g.Name()]; gd != nil && gd.Kind == "guarded_by" {
			if fv.guardedVals == nil {
				fv.guardedVals = map[ssa.Value]*GlobalDecl{}
			}
			fv.guardedVals[v] = gd
		}
	}
}

// ---- ownership of cells lent to goroutines ----------------------------------------

func (fv *FnV) checkLent(addr ssa.Value, pos token.Pos, mode string) {
	al, ok := addr.(*ssa.Alloc)
	if !ok {
		return
	}
	goPos, lent := fv.lent[al]
	if !lent {
		return
	}
	// joined?
	for _, w := range fv.wgWaits {
		if w > goPos && w < pos {
			return
		}
	}
	o := fv.emit(nil, "L", "owner:"+al.Comment+":"+mode, fv.lockProps(), "false",
		fmt.Sprintf("%s of `%s` after it was handed to a goroutine (go statement at %s) and before a join", mode, al.Comment, fv.posString(goPos)), pos)
	o.Static = "fails: the spawner " + mode + "s `" + al.Comment + "` while the goroutine may write it"
	o.Script = ""
}

func (fv *FnV) wgEvent(kind string, recv ssa.Value, pos token.Pos) {
	if kind == "wait" {
		fv.wgWaits = append(fv.wgWaits, pos)
	}
	fv.wgEvents = append(fv.wgEvents, wgEv{kind, pos, fv.curBlock})
}

type wgEv struct {
	kind  string
	pos   token.Pos
	block *ssa.BasicBlock
}

// lockBalanceAndOwnership: function-level protocol checks done after the walk.
func (fv *FnV) lockBalanceAndOwnership() {
	// wg.Add must precede the go statement whose closure calls Done
	for _, gs := range fv.goSites {
		mc, ok := gs.Common().Value.(*ssa.MakeClosure)
		if !ok {
			continue
		}
		f := mc.Fn.(*ssa.Function)
		callsDone := false
		for _, b := range f.Blocks {
			for _, ins := range b.Instrs {
				if c, ok := ins.(ssa.CallInstruction); ok {
					if sf := c.Common().StaticCallee(); sf != nil && sf.String() == "(*sync.WaitGroup).Done" {
						callsDone = true
					}
				}
			}
		}
		if !callsDone {
			continue
		}
		added := false
		for _, ev := range fv.wgEvents {
			if ev.kind == "add" && ev.pos < gs.Pos() && ev.block.Dominates(gs.Block()) {
				added = true
			}
		}
		o := fv.emit(nil, "L", "add-before-go:"+fv.siteText(gs.Pos(), "call"), fv.lockProps(), map[bool]string{true: "true", false: "false"}[added],
			"wg.Add dominates the go statement whose goroutine calls wg.Done", gs.Pos())
		if !added {
			o.Static = "fails: no dominating wg.Add before the go statement"
			o.Script = ""
		}
		// Done is reached on every path of the goroutine, also when the called function panics: it is deferred, or the body is straight-line code
		deferred := false
		for _, ins := range f.Blocks[0].Instrs {
			if d, ok := ins.(*ssa.Defer); ok {
				if sf := d.Common().StaticCallee(); sf != nil && sf.String() == "(*sync.WaitGroup).Done" {
					deferred = true
				}
			}
		}
		straight := len(f.Blocks) == 1
		if straight {
			for _, ins := range f.Blocks[0].Instrs {
				if c, ok := ins.(*ssa.Call); ok {
					if sf := c.Common().StaticCallee(); sf == nil || !strings.HasPrefix(sf.String(), "(*sync.WaitGroup)") {
						straight = false
					}
				}
			}
		}
		okDone := deferred || straight
		o2 := fv.emit(nil, "L", "done-on-every-path:"+fv.siteText(gs.Pos(), "call"), fv.lockProps(), map[bool]string{true: "true", false: "false"}[okDone],
			"the goroutine signals wg.Done on every path (deferred first, or a body that only waits and signals)", gs.Pos())
		if !okDone {
			o2.Static = "fails: wg.Done is neither deferred nor the body straight-line wait/signal code; a panic or early return would leave Exec waiting forever"
			o2.Script = ""
		}
	}
}

// dOrderCheck: an append executed inside a range over a map makes the result order depend on map iteration order.
func (fv *FnV) dOrderCheck(st *State, pos token.Pos) {
	if fv.k == nil || len(fv.k.OrderTags) == 0 {
		return
	}
	b := fv.curBlock
	for _, li := range fv.loops {
		if !li.body[b] {
			continue
		}
		isMapRange := false
		for _, ins := range li.header.Instrs {
			if n, ok := ins.(*ssa.Next); ok && !n.IsString {
				if _, isMap := n.Iter.(*ssa.Range).X.Type().Underlying().(*types.Map); isMap {
					isMapRange = true
				}
			}
		}
		if !isMapRange {
			continue
		}
		why, ok := fv.k.Unordered[fv.siteText(pos, "call")]
		o := fv.emit(nil, "D", "range-append:"+fv.siteText(pos, "call"), fv.k.OrderTags, "false",
			"no order-dependent effect inside a range over a map", pos)
		if ok {
			o.Static = "holds"
			o.Clause += " (declared order-insensitive: " + why + ")"
		} else {
			o.Static = "fails: append inside `range` over a map; the element order of the result follows Go's randomised map iteration"
		}
		o.Script = ""
	}
}

// lockPanicSafe: a mutex locked here is released also when something panics before the matching Unlock: either the
// Unlock is deferred right after the Lock, or nothing between Lock and Unlock (same basic block) can panic.
func (fv *FnV) lockPanicSafe(st *State, m string, pos token.Pos) {
	var lockIns ssa.Instruction
	b := fv.curBlock
	idx := -1
	for i, ins := range b.Instrs {
		if ins.Pos() == pos {
			if c, ok := ins.(*ssa.Call); ok && c.Common().StaticCallee() != nil && strings.HasSuffix(c.Common().StaticCallee().Name(), "Lock") {
				lockIns, idx = ins, i
			}
		}
	}
	if lockIns == nil {
		return
	}
	ok := false
	why := "neither a deferred Unlock follows the Lock nor is the locked region free of operations that can panic"
	// walk forward from the Lock; every path must reach an Unlock (or a deferred one) through instructions that cannot panic
	type pos2 struct {
		b *ssa.BasicBlock
		i int
	}
	seen := map[*ssa.BasicBlock]bool{}
	work := []pos2{{b, idx + 1}}
	ok = true
	for len(work) > 0 && ok {
		p := work[len(work)-1]
		work = work[:len(work)-1]
		done := false
		for i := p.i; i < len(p.b.Instrs) && !done && ok; i++ {
			switch x := p.b.Instrs[i].(type) {
			case *ssa.DebugRef, *ssa.UnOp, *ssa.Store, *ssa.Phi, *ssa.BinOp, *ssa.Alloc, *ssa.MakeInterface, *ssa.ChangeType, *ssa.Extract, *ssa.FieldAddr, *ssa.MakeClosure, *ssa.ChangeInterface, *ssa.Lookup:
			case *ssa.Defer:
				if f := x.Common().StaticCallee(); f != nil && strings.HasSuffix(f.Name(), "Unlock") {
					done = true
				}
			case *ssa.Call:
				if f := x.Common().StaticCallee(); f != nil && strings.HasSuffix(f.Name(), "Unlock") {
					done = true
					break
				}
				if bi, isB := x.Common().Value.(*ssa.Builtin); isB && (bi.Name() == "append" || bi.Name() == "len" || bi.Name() == "cap" || bi.Name() == "delete") {
					break
				}
				if f := x.Common().StaticCallee(); f != nil && f.Pkg != nil && (f.Pkg.Pkg.Path() == "strings" || f.Pkg.Pkg.Path() == "strconv") {
					break // total library functions
				}
				ok = false
				why = "a call between Lock and Unlock can panic while the mutex is held: " + fv.siteText(x.Pos(), "call")
			case *ssa.If, *ssa.Jump:
				for _, s := range p.b.Succs {
					if !seen[s] {
						seen[s] = true
						work = append(work, pos2{s, 0})
					}
				}
				done = true
			default:
				ok = false
				why = fmt.Sprintf("an instruction between Lock and Unlock can panic while the mutex is held (%T)", x)
			}
		}
	}
	o := fv.emit(nil, "L", "panic-safe:"+fv.siteText(pos, "call"), fv.lockProps(), map[bool]string{true: "true", false: "false"}[ok],
		"the mutex is released also when the locked region panics (deferred Unlock, or a region that cannot panic)", pos)
	if !ok {
		o.Static = "fails: " + why
		o.Script = ""
	}
}

// notePublished: a slice stored into a map held by a guarded global becomes visible to every goroutine that takes the lock.
func (fv *FnV) notePublished(mu *ssa.MapUpdate) {
	gd := fv.guardedVals[mu.Map]
	if gd == nil || gd.Kind != "guarded_by" {
		return
	}
	v := fv.val(mu.Value)
	if v.v.S != sSlice {
		return
	}
	fv.published = append(fv.published, publishedRef{ref: "(s!ref " + v.v.T + ")", gd: gd, pos: mu.Pos()})
}

type publishedRef struct {
	ref string
	gd  *GlobalDecl
	pos token.Pos
}

// publishedWrite: an element store into an array that was published through a guarded map needs the guard.
func (fv *FnV) publishedWrite(st *State, ref string, pos token.Pos) {
	for _, p := range fv.published {
		mg, ok := fv.g.spkgs[fv.pkgTypes().Path()].Members[p.gd.Mutex].(*ssa.Global)
		if !ok {
			continue
		}
		m := fv.val(mg).v.T
		held := not(eq(sel(fv.heapGet(st, "G|held"), m), "0"))
		fv.emit(st, "L", "published:"+p.gd.Name+":"+fv.siteText(pos, "index"), fv.lockProps(), or(held, not(eq(ref, p.ref))),
			"an array stored into "+p.gd.Name+" (at "+fv.posString(p.pos)+") is written afterwards only with "+p.gd.Mutex+" held", pos)
	}
}

// docWrite (C11): zero-annotation discipline for document-shaped data. Every write to a map or to a slice element targets
// an object allocated by the current activation, or an object the function's contract names in a `writes` clause; a
// function that `writes` a parameter obliges its callers to pass an object they allocated or may write themselves.
func (fv *FnV) docWrite(st *State, comp, ref, cond string, pos token.Pos) {
	if fv.k == nil || len(fv.k.FrameTags) == 0 || fv.k.Trusted != "" {
		return
	}
	// document-shaped data: map[string]any and []any
	if comp != "M|Str|Any" && comp != "D|Str|Any" && comp != "E|Any" {
		return
	}
	if fv.engineOwnedTarget(fv.curWriteTarget) {
		return
	}
	if strings.HasPrefix(comp, "D|") && fv.lastDocWrite == ref+"@"+fv.posString(pos) {
		return // the domain half of the map store just reported
	}
	fv.lastDocWrite = ref + "@" + fv.posString(pos)
	fv.bornFn()
	alts := []string{"(>= (birth " + ref + ") " + fv.now0 + ")"}
	alts = append(alts, fv.writableRefs(st, ref)...)
	goal := implies(cond, or(alts...))
	kind := "map"
	if strings.HasPrefix(comp, "E|") {
		kind = "slice"
	}
	fv.emit(st, "W", kind+":"+fv.siteText(pos, "mapstore"), fv.k.FrameTags, goal,
		"the written "+kind+" was allocated by this activation or is named in a `writes` clause", pos)
}

// writableRefs: equalities ref == (object named by a writes clause), evaluated at entry.
func (fv *FnV) writableRefs(st *State, ref string) []string {
	var out []string
	if fv.k == nil {
		return nil
	}
	for _, ex := range fv.k.Writes {
		// the object the expression names on entry, and the one it names now (a cell guarded by a mutex, or an
		// entry of a local map, may have been replaced since entry by an object that is writable for the same reason)
		var vals []CVal
		if v, err := fv.contractEnv(fv.entry, fv.entry, nil).eval(ex); err == nil {
			vals = append(vals, v)
		}
		env2 := fv.contractEnv(st, fv.entry, nil)
		if li := fv.innermostLoop(); li != nil {
			env2.loop = li
		}
		if v, err := env2.eval(ex); err == nil {
			vals = append(vals, v)
		}
		for _, v := range vals {
			r := v.T
			switch v.S {
			case sSlice:
				r = "(s!ref " + v.T + ")"
			case sAny:
				// an interface holding a map or a slice
				mc := fv.g.ctorFor(types.NewMap(types.Typ[types.String], types.NewInterfaceType(nil, nil)))
				sc := fv.g.ctorFor(types.NewSlice(types.NewInterfaceType(nil, nil)))
				out = append(out, and("((_ is "+mc.ctor+") "+v.T+")", eq(ref, "("+mc.sel+" "+v.T+")")))
				out = append(out, and("((_ is "+sc.ctor+") "+v.T+")", eq(ref, "(s!ref ("+sc.sel+" "+v.T+"))")))
				continue
			}
			out = append(out, eq(ref, r))
		}
	}
	return out
}

// docCallArgs: a callee that writes one of its parameters must be handed an object the caller allocated or may write.
func (fv *FnV) docCallArgs(st *State, callee *ssa.Function, k *Contract, args []*SV, pos token.Pos) {
	if fv.k == nil || len(fv.k.FrameTags) == 0 || k == nil {
		return
	}
	for _, ex := range k.Writes {
		for i, p := range callee.Params {
			if p.Name() != ex || i >= len(args) {
				continue
			}
			t := fv.term(args[i])
			ref := t
			switch fv.g.sortOf(p.Type()) {
			case sSlice:
				ref = "(s!ref " + t + ")"
			case sAny:
				continue
			}
			alts := []string{"(>= (birth " + ref + ") " + fv.now0 + ")"}
			alts = append(alts, fv.writableRefs(st, ref)...)
			fv.emit(st, "W", "arg:"+shortCallee(canonName(callee))+"."+ex+"@"+fv.siteText(pos, "call"), fv.k.FrameTags, or(alts...),
				"the object passed as `"+ex+"` (which the callee writes) was allocated by this activation or is named in a `writes` clause", pos)
		}
	}
}

// engineOwnedTarget: the written map/slice value was loaded from a struct field or global declared engine-owned.
func (fv *FnV) engineOwnedTarget(v ssa.Value) bool {
	if v == nil {
		return false
	}
	pkg := fv.pkgShort()
	switch x := v.(type) {
	case *ssa.UnOp:
		switch a := x.X.(type) {
		case *ssa.FieldAddr:
			pt := a.X.Type().Underlying().(*types.Pointer).Elem()
			st := pt.Underlying().(*types.Struct)
			tn := pt.String()
			if i := strings.LastIndex(tn, "."); i >= 0 {
				tn = tn[i+1:]
			}
			return fv.g.engineOwned[pkg+"."+tn+"."+st.Field(a.Field).Name()]
		case *ssa.Global:
			return fv.g.engineOwned[pkg+"."+a.Name()]
		}
	case *ssa.Phi:
		for _, e := range x.Edges {
			if !fv.engineOwnedTarget(e) {
				return false
			}
		}
		return len(x.Edges) > 0
	}
	return false
}
