package main

// Contract expressions: Go expression syntax plus ==>, old(), fresh(),
// typeis(), has(), forall(), spec.F(...). Evaluated to SMT over a heap state.

import (
	"fmt"
	"sort"
	"go/ast"
	"go/constant"
	"go/parser"
	"go/token"
	"go/types"
	"strconv"
	"strings"

	"golang.org/x/tools/go/ssa"
)

type CVal struct {
	T   string
	S   string
	Typ types.Type
	lit *constant.Value // untyped numeric literal
}

type CEnv struct {
	fv    *FnV
	st    *State
	old   *State
	vars  map[string]CVal
	loop  *loopInfo
	pkg   *types.Package
	bound map[string]CVal
	tparams map[string]types.Type
	panicking string // value of panicking() in this environment
	freePtrs map[string]CVal // captured variables: name -> pointer to the cell
	asGoal   bool            // the expression is being proved (not assumed): existentials may use their named witness
}

func typeParamsOf(fn *ssa.Function) map[string]types.Type {
	out := map[string]types.Type{}
	o := fn.Origin()
	if o == nil {
		return out
	}
	tps := o.TypeParams()
	args := fn.TypeArgs()
	for i := 0; i < tps.Len() && i < len(args); i++ {
		out[tps.At(i).Obj().Name()] = args[i]
	}
	return out
}

func (fv *FnV) pkgTypes() *types.Package {
	if fv.fn.Pkg != nil {
		return fv.fn.Pkg.Pkg
	}
	if o := fv.fn.Origin(); o != nil && o.Pkg != nil {
		return o.Pkg.Pkg
	}
	return nil
}

// contractEnv: environment of the function under verification. results may be nil.
func (fv *FnV) contractEnv(st, old *State, results []*SV) *CEnv {
	env := &CEnv{fv: fv, st: st, old: old, vars: map[string]CVal{}, pkg: fv.pkgTypes(), bound: map[string]CVal{}, tparams: typeParamsOf(fv.fn)}
	// entry values of parameters: name0 and name (parameters are re-bound by SSA when reassigned; the contract sees entry values)
	env.freePtrs = map[string]CVal{}
	isFree := map[string]bool{}
	for _, f := range fv.fn.FreeVars {
		isFree[f.Name()] = true
	}
	for name, sv := range fv.params {
		cv := CVal{T: fv.term(sv), S: fv.g.sortOf(sv.typ), Typ: sv.typ}
		if isFree[name] {
			env.freePtrs[name] = cv
			continue
		}
		env.vars[name] = cv
		env.vars[name+"0"] = cv
	}
	fv.bindResults(env, fv.fn.Signature, fv.fn, results)
	return env
}

func (fv *FnV) bindResults(env *CEnv, sig *types.Signature, fn *ssa.Function, results []*SV) {
	if results == nil {
		return
	}
	r := sig.Results()
	for i := 0; i < r.Len() && i < len(results); i++ {
		cv := CVal{T: fv.term(results[i]), S: fv.g.sortOf(r.At(i).Type()), Typ: r.At(i).Type()}
		env.vars[fmt.Sprintf("result%d", i)] = cv
		if i == 0 {
			env.vars["result"] = cv
		}
		if n := r.At(i).Name(); n != "" && n != "_" {
			env.vars[n] = cv
		}
		if i == r.Len()-1 && isErrorType(r.At(i).Type()) {
			env.vars["err"] = cv
		}
	}
}

// calleeEnv: environment of a callee's contract at a call site.
func (fv *FnV) calleeEnv(st, old *State, callee *ssa.Function, args []*SV, clo *ssa.MakeClosure, res *SV) *CEnv {
	env := &CEnv{fv: fv, st: st, old: old, vars: map[string]CVal{}, bound: map[string]CVal{}, tparams: typeParamsOf(callee), panicking: "false"}
	if callee.Pkg != nil {
		env.pkg = callee.Pkg.Pkg
	} else if o := callee.Origin(); o != nil {
		env.pkg = o.Pkg.Pkg
	}
	for i, p := range callee.Params {
		if i >= len(args) {
			break
		}
		cv := CVal{T: fv.term(args[i]), S: fv.g.sortOf(p.Type()), Typ: p.Type()}
		env.vars[p.Name()] = cv
		env.vars[p.Name()+"0"] = cv
	}
	env.freePtrs = map[string]CVal{}
	if clo != nil {
		for i, f := range callee.FreeVars {
			b := fv.val(clo.Bindings[i])
			env.freePtrs[f.Name()] = CVal{T: fv.term(b), S: fv.g.sortOf(f.Type()), Typ: f.Type()}
		}
	}
	if res != nil {
		var rs []*SV
		if callee.Signature.Results().Len() == 1 {
			rs = []*SV{res}
		} else {
			for i := range res.tup {
				rs = append(rs, &res.tup[i])
			}
		}
		fv.bindResults(env, callee.Signature, callee, rs)
	}
	return env
}

// ---- ==> rewriting ---------------------------------------------------------------

func matchClose(s string, i int) int {
	open := s[i]
	closeC := map[byte]byte{'(': ')', '[': ']', '{': '}'}[open]
	depth := 0
	for j := i; j < len(s); j++ {
		switch s[j] {
		case '"':
			k := j + 1
			for k < len(s) && s[k] != '"' {
				if s[k] == '\\' {
					k++
				}
				k++
			}
			j = k
		case '`':
			k := strings.IndexByte(s[j+1:], '`')
			if k < 0 {
				return -1
			}
			j += k + 1
		case '\'':
			k := j + 1
			for k < len(s) && s[k] != '\'' {
				if s[k] == '\\' {
					k++
				}
				k++
			}
			j = k
		case open:
			depth++
		case closeC:
			depth--
			if depth == 0 {
				return j
			}
		}
	}
	return -1
}

func splitTop(s, sep string) []string {
	var parts []string
	last := 0
	for i := 0; i < len(s); i++ {
		switch s[i] {
		case '(', '[', '{':
			j := matchClose(s, i)
			if j < 0 {
				return []string{s}
			}
			i = j
		case '"', '`', '\'':
			q := s[i]
			k := i + 1
			for k < len(s) && s[k] != q {
				if s[k] == '\\' && q != '`' {
					k++
				}
				k++
			}
			i = k
		default:
			if strings.HasPrefix(s[i:], sep) {
				parts = append(parts, s[last:i])
				last = i + len(sep)
				i += len(sep) - 1
			}
		}
	}
	return append(parts, s[last:])
}

func rewriteImp(s string) string {
	var b strings.Builder
	for i := 0; i < len(s); i++ {
		c := s[i]
		switch c {
		case '(', '[':
			j := matchClose(s, i)
			if j < 0 {
				b.WriteString(s[i:])
				i = len(s)
				break
			}
			inner := splitTop(s[i+1:j], ",")
			for k := range inner {
				inner[k] = rewriteImp(inner[k])
			}
			b.WriteByte(c)
			b.WriteString(strings.Join(inner, ","))
			b.WriteByte(s[j])
			i = j
		case '"', '`', '\'':
			k := i + 1
			for k < len(s) && s[k] != c {
				if s[k] == '\\' && c != '`' {
					k++
				}
				k++
			}
			if k >= len(s) {
				k = len(s) - 1
			}
			b.WriteString(s[i : k+1])
			i = k
		default:
			b.WriteByte(c)
		}
	}
	parts := splitTop(b.String(), "==>")
	out := strings.TrimSpace(parts[len(parts)-1])
	for i := len(parts) - 2; i >= 0; i-- {
		out = "imp(" + strings.TrimSpace(parts[i]) + ", " + out + ")"
	}
	return out
}

func (e *CEnv) parse(text string) (ast.Expr, error) {
	return parser.ParseExpr(rewriteImp(text))
}

func (e *CEnv) evalBool(text string) (string, error) {
	v, err := e.eval(text)
	if err != nil {
		return "", err
	}
	if v.S != sBool {
		return "", fmt.Errorf("clause is not boolean (sort %s): %s", v.S, text)
	}
	return v.T, nil
}

func (e *CEnv) eval(text string) (cv CVal, err error) {
	defer func() {
		if r := recover(); r != nil {
			if ce, ok := r.(cerr); ok {
				err = fmt.Errorf("%s in `%s`", string(ce), text)
				return
			}
			panic(r)
		}
	}()
	x, perr := e.parse(text)
	if perr != nil {
		return CVal{}, fmt.Errorf("parse `%s`: %v", text, perr)
	}
	return e.ev(x), nil
}

type cerr string

func cfail(format string, a ...any) { panic(cerr(fmt.Sprintf(format, a...))) }

// ---- evaluation ---------------------------------------------------------------------

func (e *CEnv) g() *Gen { return e.fv.g }

func (e *CEnv) val(t string, typ types.Type) CVal {
	return CVal{T: t, S: e.g().sortOf(typ), Typ: typ}
}

// heapVal: a value read from the heap of the environment's state; what Go guarantees about stored values holds for it
// (it refers only to objects allocated before that state).
func (e *CEnv) heapVal(t string, typ types.Type) CVal {
	if f := e.fv.wf(t, typ, e.st.now); f != "true" {
		e.fv.c.AddFact("", f)
	}
	return e.val(t, typ)
}

func (e *CEnv) ev(x ast.Expr) CVal {
	g := e.g()
	switch x := x.(type) {
	case *ast.ParenExpr:
		return e.ev(x.X)
	case *ast.BasicLit:
		switch x.Kind {
		case token.INT, token.FLOAT, token.CHAR:
			cv := constant.MakeFromLiteral(x.Value, x.Kind, 0)
			return CVal{lit: &cv, S: "lit"}
		case token.STRING:
			s, _ := strconv.Unquote(x.Value)
			return CVal{T: g.strLit(s), S: sStr, Typ: types.Typ[types.String]}
		}
	case *ast.Ident:
		return e.ident(x.Name)
	case *ast.UnaryExpr:
		v := e.ev(x.X)
		switch x.Op {
		case token.NOT:
			return CVal{T: not(v.T), S: sBool, Typ: types.Typ[types.Bool]}
		case token.SUB:
			if v.lit != nil {
				n := constant.UnaryOp(token.SUB, *v.lit, 0)
				return CVal{lit: &n, S: "lit"}
			}
			if isBV(v.S) {
				return CVal{T: "(bvneg " + v.T + ")", S: v.S, Typ: v.Typ}
			}
			if v.S == sInt {
				return CVal{T: "(- " + v.T + ")", S: sInt}
			}
			return CVal{T: "(fp.neg " + v.T + ")", S: v.S, Typ: v.Typ}
		case token.XOR:
			if isBV(v.S) {
				return CVal{T: "(bvnot " + v.T + ")", S: v.S, Typ: v.Typ}
			}
			cfail("^ on a non-integer")
		case token.AND:
			// address of a local variable
			if id, ok := x.X.(*ast.Ident); ok {
				if p, ok := e.freePtrs[id.Name]; ok {
					return p
				}
				for _, d := range e.fv.localNames[id.Name] {
					if al, ok := d.X.(*ssa.Alloc); ok && d.IsAddr {
						if sv, done := e.fv.vals[al]; done {
							return CVal{T: sv.ptr.ref, S: sRef, Typ: al.Type()}
						}
					}
				}
				if e.pkg != nil {
					if obj, ok := e.pkg.Scope().Lookup(id.Name).(*types.Var); ok {
						if sp := e.g().prog.Package(obj.Pkg()); sp != nil {
							if gl, ok := sp.Members[obj.Name()].(*ssa.Global); ok {
								return CVal{T: e.fv.val(gl).v.T, S: sRef, Typ: gl.Type()}
							}
						}
					}
				}
				cfail("address of %s: not an addressable local", id.Name)
			}
			// address-of: only &x.f of struct-typed fields (sub addresses)
			if se, ok := x.X.(*ast.SelectorExpr); ok {
				base := e.ev(se.X)
				st, pt := e.structOf(base)
				for i := 0; i < st.NumFields(); i++ {
					if st.Field(i).Name() == se.Sel.Name {
						if _, isS := isStruct(st.Field(i).Type()); isS {
							return CVal{T: e.fv.subAddr(pt, se.Sel.Name, base.T), S: sRef, Typ: types.NewPointer(st.Field(i).Type())}
						}
					}
				}
			}
			cfail("unsupported address-of")
		}
	case *ast.StarExpr:
		v := e.ev(x.X)
		pt, ok := types.Unalias(v.Typ).Underlying().(*types.Pointer)
		if !ok {
			cfail("dereference of non-pointer")
		}
		p := &Ptr{kind: pPlain, ref: v.T, elemT: pt.Elem()}
		return e.val(e.fv.loadAt(e.st, p, pt.Elem()), pt.Elem())
	case *ast.BinaryExpr:
		return e.binary(x)
	case *ast.SelectorExpr:
		return e.selector(x)
	case *ast.IndexExpr:
		return e.index(x)
	case *ast.TypeAssertExpr:
		v := e.ev(x.X)
		t := e.resolveType(x.Type)
		return e.val(g.unbox(e.fv.c, v.T, t), t)
	case *ast.CallExpr:
		return e.call(x)
	}
	cfail("unsupported expression %T", x)
	return CVal{}
}

func (e *CEnv) ident(name string) CVal {
	g := e.g()
	switch name {
	case "true":
		return CVal{T: "true", S: sBool, Typ: types.Typ[types.Bool]}
	case "false":
		return CVal{T: "false", S: sBool, Typ: types.Typ[types.Bool]}
	case "nil":
		return CVal{T: "nil", S: "nil"}
	}
	if v, ok := e.bound[name]; ok {
		return v
	}
	if name == "rangevalue" && e.loop != nil {
		// the element of the ranged slice this iteration works on: the load through &s[rangeindex+1]
		for b := range e.loop.body {
			for _, ins := range b.Instrs {
				u, ok := ins.(*ssa.UnOp)
				if !ok || u.Op != token.MUL {
					continue
				}
				ia, ok := u.X.(*ssa.IndexAddr)
				if !ok {
					continue
				}
				if bo, ok := ia.Index.(*ssa.BinOp); ok {
					if phi, ok := bo.X.(*ssa.Phi); ok && phi.Comment == "rangeindex" && phi.Block() == e.loop.header {
						if sv, done := e.fv.vals[u]; done {
							return CVal{T: e.fv.term(sv), S: e.g().sortOf(u.Type()), Typ: u.Type()}
						}
					}
				}
			}
		}
		cfail("rangevalue: no range element loaded in this loop yet")
	}
	if v, ok := e.vars[name]; ok {
		return v
	}
	if p, ok := e.freePtrs[name]; ok {
		// a captured variable denotes its current value
		pt := types.Unalias(p.Typ).Underlying().(*types.Pointer)
		return e.heapVal(e.fv.loadAt(e.st, &Ptr{kind: pPlain, ref: p.T, elemT: pt.Elem()}, pt.Elem()), pt.Elem())
	}
	if v, ok := e.local(name); ok {
		return v
	}
	// package-level constants and variables
	if e.pkg != nil {
		if obj := e.pkg.Scope().Lookup(name); obj != nil {
			return e.object(obj)
		}
	}
	_ = g
	cfail("unknown identifier %s", name)
	return CVal{}
}

func (e *CEnv) object(obj types.Object) CVal {
	g := e.g()
	switch o := obj.(type) {
	case *types.Const:
		s := g.sortOf(o.Type())
		switch {
		case isBV(s):
			i, _ := constant.Int64Val(constant.ToInt(o.Val()))
			return CVal{T: bvLit(i, bvWidth(s)), S: s, Typ: o.Type()}
		case s == sStr:
			return CVal{T: g.strLit(constant.StringVal(o.Val())), S: sStr, Typ: o.Type()}
		case s == sBool:
			return CVal{T: fmt.Sprint(constant.BoolVal(o.Val())), S: sBool, Typ: o.Type()}
		case s == sF64:
			f, _ := constant.Float64Val(o.Val())
			return CVal{T: f64Lit(f), S: sF64, Typ: o.Type()}
		}
	case *types.Var:
		// a package-level variable: read its cell
		if sp := g.prog.Package(o.Pkg()); sp != nil {
			if gl, ok := sp.Members[o.Name()].(*ssa.Global); ok {
				p := e.fv.ptrOf(gl)
				return e.val(e.fv.loadAt(e.st, p, o.Type()), o.Type())
			}
		}
	}
	cfail("unsupported package-level object %s", obj.Name())
	return CVal{}
}

// local: a source-level local variable, resolved through debug info.
func (e *CEnv) local(name string) (CVal, bool) {
	fv := e.fv
	// header phis of the current loop by their comment
	if e.loop != nil {
		for _, ins := range e.loop.header.Instrs {
			if phi, ok := ins.(*ssa.Phi); ok && phi.Comment == name {
				sv := fv.val(phi)
				return CVal{T: fv.term(sv), S: fv.g.sortOf(phi.Type()), Typ: phi.Type()}, true
			}
		}
	}
	refs := fv.localNames[name]
	if len(refs) == 0 {
		return CVal{}, false
	}
	// the last definition already executed that dominates the current block
	var best *ssa.DebugRef
	for _, d := range refs {
		if _, done := fv.vals[d.X]; !done {
			if _, isC := d.X.(*ssa.Const); !isC {
				continue
			}
		}
		if fv.curBlock != nil && !d.Block().Dominates(fv.curBlock) {
			continue
		}
		best = d
	}
	if best == nil {
		// the variable exists but is not defined on this path (an early return): any value
		d := refs[0]
		t := d.X.Type()
		if d.IsAddr {
			t = t.Underlying().(*types.Pointer).Elem()
		}
		return CVal{T: fv.c.Fresh("undef!"+name, fv.g.sortOf(t)), S: fv.g.sortOf(t), Typ: t}, true
	}
	sv := fv.val(best.X)
	if best.IsAddr {
		pt := best.X.Type().Underlying().(*types.Pointer).Elem()
		p := fv.ptrOf(best.X)
		return e.val(fv.loadAt(e.st, p, pt), pt), true
	}
	return CVal{T: fv.term(sv), S: fv.g.sortOf(best.X.Type()), Typ: best.X.Type()}, true
}

func (e *CEnv) structOf(v CVal) (*types.Struct, types.Type) {
	if v.Typ == nil {
		cfail("untyped value has no fields")
	}
	t := types.Unalias(v.Typ)
	if pt, ok := t.Underlying().(*types.Pointer); ok {
		t = pt.Elem()
	}
	st, ok := t.Underlying().(*types.Struct)
	if !ok {
		cfail("%s has no fields", v.Typ)
	}
	return st, t
}

func (e *CEnv) selector(x *ast.SelectorExpr) CVal {
	g := e.g()
	// package-qualified constant
	if id, ok := x.X.(*ast.Ident); ok {
		if _, isVar := e.vars[id.Name]; !isVar {
			if _, isBound := e.bound[id.Name]; !isBound {
				if pk := e.importedPkg(id.Name); pk != nil {
					obj := pk.Scope().Lookup(x.Sel.Name)
					if obj == nil {
						cfail("unknown %s.%s", id.Name, x.Sel.Name)
					}
					return e.object(obj)
				}
			}
		}
	}
	base := e.ev(x.X)
	st, stT := e.structOf(base)
	for i := 0; i < st.NumFields(); i++ {
		f := st.Field(i)
		if f.Name() != x.Sel.Name {
			continue
		}
		if _, isPtr := types.Unalias(base.Typ).Underlying().(*types.Pointer); isPtr {
			p := &Ptr{kind: pPlain, ref: base.T, elemT: stT}
			fp := e.fv.fieldPtr(p, stT, f.Name(), f.Type())
			return e.heapVal(e.fv.loadAt(e.st, fp, f.Type()), f.Type())
		}
		return e.val(app(g.structSel(stT, f.Name()), base.T), f.Type())
	}
	cfail("no field %s", x.Sel.Name)
	return CVal{}
}

func (e *CEnv) importedPkg(name string) *types.Package {
	if e.pkg == nil {
		return nil
	}
	for _, imp := range e.pkg.Imports() {
		if imp.Name() == name {
			return imp
		}
	}
	if e.pkg.Name() == name {
		return e.pkg
	}
	return nil
}

func (e *CEnv) index(x *ast.IndexExpr) CVal {
	base := e.ev(x.X)
	idx := e.ev(x.Index)
	if base.Typ == nil {
		cfail("index of untyped value")
	}
	switch t := types.Unalias(base.Typ).Underlying().(type) {
	case *types.Slice:
		i := e.coerce(idx, sBV64, types.Typ[types.Int])
		h := e.fv.heapGet(e.st, e.g().compElem(t.Elem()))
		return e.heapVal(sel(sel(h, "(s!ref "+base.T+")"), "(bvadd (s!off "+base.T+") "+i.T+")"), t.Elem())
	case *types.Map:
		k := e.coerce(idx, e.g().sortOf(t.Key()), t.Key())
		has := e.fv.mapHas(e.st, t, base.T, k.T)
		return e.heapVal(ite(has, e.fv.mapGet(e.st, t, base.T, k.T), e.g().zero(t.Elem())), t.Elem())
	case *types.Basic:
		i := e.coerce(idx, sBV64, types.Typ[types.Int])
		return CVal{T: app("str!at", base.T, i.T), S: bvSort(8), Typ: types.Typ[types.Uint8]}
	}
	cfail("cannot index %s", base.Typ)
	return CVal{}
}

// coerce adapts literals and nil to the wanted sort.
func (e *CEnv) coerce(v CVal, sort string, typ types.Type) CVal {
	if v.lit != nil {
		switch {
		case isBV(sort):
			i, ok := constant.Int64Val(constant.ToInt(*v.lit))
			if !ok {
				u, _ := constant.Uint64Val(constant.ToInt(*v.lit))
				return CVal{T: bvULit(u, bvWidth(sort)), S: sort, Typ: typ}
			}
			return CVal{T: bvLit(i, bvWidth(sort)), S: sort, Typ: typ}
		case sort == sF64:
			f, _ := constant.Float64Val(*v.lit)
			return CVal{T: f64Lit(f), S: sF64, Typ: typ}
		case sort == sF32:
			f, _ := constant.Float32Val(*v.lit)
			return CVal{T: f32Lit(f), S: sF32, Typ: typ}
		case sort == sInt:
			return CVal{T: smtInt((*v.lit).ExactString()), S: sInt}
		}
		cfail("literal used as %s", sort)
	}
	if v.S == "nil" {
		switch sort {
		case sRef:
			return CVal{T: "nil!ref", S: sRef, Typ: typ}
		case sAny:
			return CVal{T: "a!nil", S: sAny, Typ: typ}
		case sSlice:
			return CVal{T: "nil!slice", S: sSlice, Typ: typ}
		}
		cfail("nil used as %s", sort)
	}
	return v
}

func smtInt(s string) string {
	if strings.HasPrefix(s, "-") {
		return "(- " + s[1:] + ")"
	}
	return s
}

func (e *CEnv) unify(a, b CVal) (CVal, CVal) {
	switch {
	case a.lit != nil && b.lit != nil:
		return e.coerce(a, sInt, nil), e.coerce(b, sInt, nil)
	case a.lit != nil || a.S == "nil":
		return e.coerce(a, b.S, b.Typ), b
	case b.lit != nil || b.S == "nil":
		return a, e.coerce(b, a.S, a.Typ)
	}
	return a, b
}

func (e *CEnv) binary(x *ast.BinaryExpr) CVal {
	boolT := types.Typ[types.Bool]
	switch x.Op {
	case token.LAND:
		return CVal{T: and(e.ev(x.X).T, e.ev(x.Y).T), S: sBool, Typ: boolT}
	case token.LOR:
		return CVal{T: or(e.ev(x.X).T, e.ev(x.Y).T), S: sBool, Typ: boolT}
	}
	a, b := e.unify(e.ev(x.X), e.ev(x.Y))
	if a.S != b.S {
		// a slice compared with nil etc. was handled by unify; anything else is a typing error
		cfail("operands of %s have different sorts (%s vs %s)", x.Op, a.S, b.S)
	}
	signed := a.Typ == nil || isSigned(a.Typ)
	s := a.S
	cmp := func(bvS, bvU, fp, in string) CVal {
		switch {
		case isBV(s):
			op := bvS
			if !signed {
				op = bvU
			}
			return CVal{T: "(" + op + " " + a.T + " " + b.T + ")", S: sBool, Typ: boolT}
		case s == sF64 || s == sF32:
			return CVal{T: "(" + fp + " " + a.T + " " + b.T + ")", S: sBool, Typ: boolT}
		case s == sInt:
			return CVal{T: "(" + in + " " + a.T + " " + b.T + ")", S: sBool, Typ: boolT}
		case s == sStr:
			return CVal{T: "(" + in + " (str!cmp " + a.T + " " + b.T + ") 0)", S: sBool, Typ: boolT}
		}
		cfail("ordering on sort %s", s)
		return CVal{}
	}
	arith := func(bv, fp, in string) CVal {
		switch {
		case isBV(s):
			return CVal{T: e.fv.c.Define("cx", s, "("+bv+" "+a.T+" "+b.T+")"), S: s, Typ: a.Typ}
		case s == sF64 || s == sF32:
			return CVal{T: e.fv.c.Define("cx", s, "("+fp+" RNE "+a.T+" "+b.T+")"), S: s, Typ: a.Typ}
		case s == sInt:
			return CVal{T: "(" + in + " " + a.T + " " + b.T + ")", S: sInt}
		}
		cfail("arithmetic on sort %s", s)
		return CVal{}
	}
	switch x.Op {
	case token.EQL:
		// on floats, == in a contract is identity of the value (NaN == NaN); use feq() for IEEE equality
		if s == sSlice && (isNilSlice(a) || isNilSlice(b)) {
			return CVal{T: eq("(s!ref "+a.T+")", "(s!ref "+b.T+")"), S: sBool, Typ: boolT}
		}
		return CVal{T: eq(a.T, b.T), S: sBool, Typ: boolT}
	case token.NEQ:
		if s == sSlice && (isNilSlice(a) || isNilSlice(b)) {
			return CVal{T: not(eq("(s!ref "+a.T+")", "(s!ref "+b.T+")")), S: sBool, Typ: boolT}
		}
		return CVal{T: not(eq(a.T, b.T)), S: sBool, Typ: boolT}
	case token.LSS:
		return cmp("bvslt", "bvult", "fp.lt", "<")
	case token.LEQ:
		return cmp("bvsle", "bvule", "fp.leq", "<=")
	case token.GTR:
		return cmp("bvsgt", "bvugt", "fp.gt", ">")
	case token.GEQ:
		return cmp("bvsge", "bvuge", "fp.geq", ">=")
	case token.ADD:
		if s == sStr {
			return CVal{T: app("str!cat", a.T, b.T), S: sStr, Typ: a.Typ}
		}
		return arith("bvadd", "fp.add", "+")
	case token.SUB:
		return arith("bvsub", "fp.sub", "-")
	case token.MUL:
		return arith("bvmul", "fp.mul", "*")
	case token.QUO:
		if isBV(s) {
			if signed {
				return CVal{T: "(bvsdiv " + a.T + " " + b.T + ")", S: s, Typ: a.Typ}
			}
			return CVal{T: "(bvudiv " + a.T + " " + b.T + ")", S: s, Typ: a.Typ}
		}
		return arith("bvsdiv", "fp.div", "div")
	case token.REM:
		if isBV(s) && !signed {
			return CVal{T: "(bvurem " + a.T + " " + b.T + ")", S: s, Typ: a.Typ}
		}
		return arith("bvsrem", "fp.rem", "mod")
	case token.AND:
		return arith("bvand", "", "")
	case token.OR:
		return arith("bvor", "", "")
	case token.XOR:
		return arith("bvxor", "", "")
	case token.SHL:
		return arith("bvshl", "", "")
	case token.SHR:
		if signed {
			return arith("bvashr", "", "")
		}
		return arith("bvlshr", "", "")
	}
	cfail("unsupported operator %s", x.Op)
	return CVal{}
}

func isNilSlice(v CVal) bool { return v.T == "nil!slice" }

func (e *CEnv) resolveType(x ast.Expr) types.Type {
	switch x := x.(type) {
	case *ast.Ident:
		if t, ok := e.tparams[x.Name]; ok {
			return t
		}
		if o := types.Universe.Lookup(x.Name); o != nil {
			if tn, ok := o.(*types.TypeName); ok {
				return tn.Type()
			}
		}
		if e.pkg != nil {
			if o := e.pkg.Scope().Lookup(x.Name); o != nil {
				if tn, ok := o.(*types.TypeName); ok {
					return tn.Type()
				}
			}
		}
	case *ast.StarExpr:
		return types.NewPointer(e.resolveType(x.X))
	case *ast.ArrayType:
		if x.Len == nil {
			return types.NewSlice(e.resolveType(x.Elt))
		}
	case *ast.MapType:
		return types.NewMap(e.resolveType(x.Key), e.resolveType(x.Value))
	case *ast.SelectorExpr:
		if id, ok := x.X.(*ast.Ident); ok {
			if pk := e.importedPkg(id.Name); pk != nil {
				if o := pk.Scope().Lookup(x.Sel.Name); o != nil {
					if tn, ok := o.(*types.TypeName); ok {
						return tn.Type()
					}
				}
			}
		}
	case *ast.InterfaceType:
		return types.NewInterfaceType(nil, nil)
	case *ast.ParenExpr:
		return e.resolveType(x.X)
	}
	cfail("cannot resolve type %v", x)
	return nil
}

func (e *CEnv) call(x *ast.CallExpr) CVal {
	g := e.g()
	boolT := types.Typ[types.Bool]
	intT := types.Typ[types.Int]
	name := ""
	switch f := x.Fun.(type) {
	case *ast.Ident:
		name = f.Name
	case *ast.SelectorExpr:
		if id, ok := f.X.(*ast.Ident); ok && id.Name == "spec" {
			return e.specCall(f.Sel.Name, x.Args)
		}
	}
	arg := func(i int) CVal {
		if i >= len(x.Args) {
			cfail("%s: missing argument %d", name, i)
		}
		return e.ev(x.Args[i])
	}
	switch name {
	case "imp":
		return CVal{T: implies(arg(0).T, arg(1).T), S: sBool, Typ: boolT}
	case "iff":
		return CVal{T: eq(arg(0).T, arg(1).T), S: sBool, Typ: boolT}
	case "ite":
		a, b := e.unify(arg(1), arg(2))
		return CVal{T: ite(arg(0).T, a.T, b.T), S: a.S, Typ: a.Typ}
	case "old":
		saved := e.st
		e.st = e.old
		v := arg(0)
		e.st = saved
		return v
	case "len", "cap":
		v := arg(0)
		switch {
		case v.S == sSlice:
			return CVal{T: "(s!" + name + " " + v.T + ")", S: sBV64, Typ: intT}
		case v.S == sStr:
			return CVal{T: "(str!len " + v.T + ")", S: sBV64, Typ: intT}
		case v.S == sRef && v.Typ != nil:
			if mt, ok := types.Unalias(v.Typ).Underlying().(*types.Map); ok {
				return CVal{T: e.fv.mapLen(e.st, mt, v.T), S: sBV64, Typ: intT}
			}
		}
		cfail("len of %s", v.S)
	case "fresh":
		v := arg(0)
		ref := v.T
		if v.S == sSlice {
			ref = "(s!ref " + v.T + ")"
		}
		e.fv.bornFn()
		return CVal{T: "(>= (birth " + ref + ") " + e.fv.now0 + ")", S: sBool, Typ: boolT}
	case "typeis":
		return CVal{T: g.isType(arg(0).T, e.resolveType(x.Args[1])), S: sBool, Typ: boolT}
	case "has":
		m := arg(0)
		mt, ok := types.Unalias(m.Typ).Underlying().(*types.Map)
		if !ok {
			cfail("has: not a map")
		}
		k := e.coerce(arg(1), g.sortOf(mt.Key()), mt.Key())
		return CVal{T: e.fv.mapHas(e.st, mt, m.T, k.T), S: sBool, Typ: boolT}
	case "dom", "mapval":
		m := arg(0)
		mt, ok := types.Unalias(m.Typ).Underlying().(*types.Map)
		if !ok {
			cfail("%s: not a map", name)
		}
		if name == "dom" {
			return CVal{T: sel(e.fv.heapGet(e.st, g.compMapDom(mt)), m.T), S: fmt.Sprintf("(Array %s Bool)", g.sortOf(mt.Key()))}
		}
		return CVal{T: sel(e.fv.heapGet(e.st, g.compMapVal(mt)), m.T), S: fmt.Sprintf("(Array %s %s)", g.sortOf(mt.Key()), g.sortOf(mt.Elem()))}
	case "elems":
		s := arg(0)
		stt, ok := types.Unalias(s.Typ).Underlying().(*types.Slice)
		if !ok {
			cfail("elems: not a slice")
		}
		return CVal{T: sel(e.fv.heapGet(e.st, g.compElem(stt.Elem())), "(s!ref "+s.T+")"), S: fmt.Sprintf("(Array (_ BitVec 64) %s)", g.sortOf(stt.Elem()))}
	case "update":
		a := arg(0)
		if !strings.HasPrefix(a.S, "(Array ") {
			cfail("update: not an array")
		}
		// element sorts from the array sort text: (Array K V)
		inner := strings.TrimSuffix(strings.TrimPrefix(a.S, "(Array "), ")")
		var ks, vs string
		if strings.HasPrefix(inner, "(") {
			j := matchClose(inner, 0)
			ks, vs = inner[:j+1], strings.TrimSpace(inner[j+1:])
		} else {
			sp := strings.IndexByte(inner, ' ')
			ks, vs = inner[:sp], strings.TrimSpace(inner[sp+1:])
		}
		k := e.coerce(arg(1), ks, nil)
		v := e.coerce(arg(2), vs, nil)
		if v.S != vs && vs == sAny && v.Typ != nil {
			v = CVal{T: e.g().box(e.fv.c, v.T, v.Typ), S: sAny}
		}
		return CVal{T: sto(a.T, k.T, v.T), S: a.S}
	case "ref":
		s := arg(0)
		if s.S == sSlice {
			return CVal{T: "(s!ref " + s.T + ")", S: sRef}
		}
		return CVal{T: s.T, S: sRef}
	case "off":
		return CVal{T: "(s!off " + arg(0).T + ")", S: sBV64, Typ: intT}
	case "held":
		m := arg(0)
		return CVal{T: not(eq(sel(e.fv.heapGet(e.st, "G|held"), m.T), "0")), S: sBool, Typ: boolT}
	case "waited":
		return CVal{T: eq(sel(e.fv.heapGet(e.st, "G|waited"), arg(0).T), "1"), S: sBool, Typ: boolT}
	case "wgcount":
		return CVal{T: sel(e.fv.heapGet(e.st, "G|wg"), arg(0).T), S: sInt}
	case "buf":
		return CVal{T: sel(e.fv.heapGet(e.st, "B|buf"), arg(0).T), S: sStr, Typ: types.Typ[types.String]}
	case "forall", "exists":
		// forall(i, lo, hi, body): lo <= i < hi, i an int
		id, ok := x.Args[0].(*ast.Ident)
		if !ok || (len(x.Args) != 4 && !(name == "exists" && len(x.Args) == 5)) {
			cfail("%s(i, lo, hi, body)", name)
		}
		if name == "exists" && len(x.Args) == 5 && e.asGoal {
			// proving an existential: the contract names the witness
			lo := e.coerce(arg(1), sBV64, intT)
			hi := e.coerce(arg(2), sBV64, intT)
			w := e.coerce(arg(4), sBV64, intT)
			saved, had := e.bound[id.Name]
			e.bound[id.Name] = CVal{T: w.T, S: sBV64, Typ: intT}
			body := e.ev(x.Args[3])
			if had {
				e.bound[id.Name] = saved
			} else {
				delete(e.bound, id.Name)
			}
			return CVal{T: and("(bvsle "+lo.T+" "+w.T+")", "(bvslt "+w.T+" "+hi.T+")", body.T), S: sBool, Typ: boolT}
		}
		lo := e.coerce(arg(1), sBV64, intT)
		hi := e.coerce(arg(2), sBV64, intT)
		bn := quoteSym("q!" + id.Name)
		saved, had := e.bound[id.Name]
		e.bound[id.Name] = CVal{T: bn, S: sBV64, Typ: intT}
		body := e.ev(x.Args[3])
		if had {
			e.bound[id.Name] = saved
		} else {
			delete(e.bound, id.Name)
		}
		rng := and("(bvsle "+lo.T+" "+bn+")", "(bvslt "+bn+" "+hi.T+")")
		if name == "forall" {
			return CVal{T: "(forall ((" + bn + " (_ BitVec 64))) " + implies(rng, body.T) + ")", S: sBool, Typ: boolT}
		}
		return CVal{T: "(exists ((" + bn + " (_ BitVec 64))) " + and(rng, body.T) + ")", S: sBool, Typ: boolT}
	case "smt":
		lit, ok := x.Args[0].(*ast.BasicLit)
		if !ok {
			cfail("smt(\"...\")")
		}
		s, _ := strconv.Unquote(lit.Value)
		sortS := sBool
		if len(x.Args) > 1 {
			l2, _ := x.Args[1].(*ast.BasicLit)
			sortS, _ = strconv.Unquote(l2.Value)
		}
		return CVal{T: s, S: sortS}
	case "panicking":
		if e.panicking != "" {
			return CVal{T: e.panicking, S: sBool, Typ: boolT}
		}
		return CVal{T: e.fv.panickingTerm(), S: sBool, Typ: boolT}
	case "callresult", "callarg":
		// callresult(Callee, i): the i-th result of the unique call of Callee in this function
		// callarg(Callee, i): the i-th argument of that call (of a call already passed on this path)
		id, ok := x.Args[0].(*ast.Ident)
		lit, ok2 := x.Args[1].(*ast.BasicLit)
		if !ok || !ok2 {
			cfail("callresult(Callee, i)")
		}
		idx, _ := strconv.Atoi(lit.Value)
		which := 0
		if len(x.Args) > 2 {
			if l3, ok := x.Args[2].(*ast.BasicLit); ok {
				which, _ = strconv.Atoi(l3.Value)
			}
		}
		var calls []*ssa.Call
		for _, b := range e.fv.fn.Blocks {
			for _, ins := range b.Instrs {
				if c, ok := ins.(*ssa.Call); ok {
					if sc := c.Common().StaticCallee(); sc != nil {
						n := sc.Name()
						if i := strings.Index(n, "["); i > 0 {
							n = n[:i]
						}
						if n == id.Name {
							calls = append(calls, c)
						}
					}
				}
			}
		}
		sort.Slice(calls, func(i, j int) bool { return calls[i].Pos() < calls[j].Pos() })
		var found *ssa.Call
		switch {
		case which == 0 && len(calls) == 1:
			found = calls[0]
		case which >= 1 && which <= len(calls):
			found = calls[which-1]
		default:
			cfail("callresult: %d calls of %s (ordinal %d)", len(calls), id.Name, which)
		}
		if name == "callarg" {
			args := found.Common().Args
			if idx >= len(args) {
				cfail("callarg: index")
			}
			av := args[idx]
			if _, isConst := av.(*ssa.Const); !isConst {
				if _, done := e.fv.vals[av]; !done {
					if _, isParam := av.(*ssa.Parameter); !isParam {
						return CVal{T: e.fv.c.Fresh("undef!"+id.Name, e.g().sortOf(av.Type())), S: e.g().sortOf(av.Type()), Typ: av.Type()}
					}
				}
			}
			v := e.fv.val(av)
			return CVal{T: e.fv.term(v), S: e.g().sortOf(av.Type()), Typ: av.Type()}
		}
		sv, done := e.fv.vals[found]
		if !done {
			// not reached yet in processing order (an early return): any value; clauses guard such uses with err == nil or called()
			rt := found.Common().Signature().Results()
			if idx >= rt.Len() {
				cfail("callresult: index")
			}
			t := rt.At(idx).Type()
			return CVal{T: e.fv.c.Fresh("undef!"+id.Name, e.g().sortOf(t)), S: e.g().sortOf(t), Typ: t}
		}
		r := sv
		if len(sv.tup) > 0 {
			if idx >= len(sv.tup) {
				cfail("callresult: index")
			}
			r = &sv.tup[idx]
		}
		return CVal{T: e.fv.term(r), S: e.g().sortOf(r.typ), Typ: r.typ}
	case "called", "iter":
		// called(Callee): a call of Callee was executed on this path
		// iter(Callee): a call of Callee was executed since the head of the innermost loop around that call was last passed
		// (in the current iteration; equal to called(Callee) for a call outside every loop)
		id, ok := x.Args[0].(*ast.Ident)
		if !ok {
			cfail("called(Callee)")
		}
		var hits []string
		for sc, flags := range e.fv.callFlags {
			n := sc
			if i := strings.Index(n, "["); i > 0 {
				n = n[:i]
			}
			if n == id.Name || strings.HasSuffix(n, "."+id.Name) {
				for _, f := range flags {
					if name == "iter" {
						f = "X|iter" + strings.TrimPrefix(f, "X|call")
					}
					if hit, ok := e.st.heap[f]; ok {
						hits = append(hits, hit)
					}
				}
			}
		}
		if len(hits) > 0 {
			return CVal{T: or(hits...), S: sBool, Typ: boolT}
		}
		return CVal{T: "false", S: sBool, Typ: boolT}
	case "min":
		a, b := e.unify(arg(0), arg(1))
		return CVal{T: ite("(bvsle "+a.T+" "+b.T+")", a.T, b.T), S: a.S, Typ: a.Typ}
	case "feq":
		return CVal{T: "(fp.eq " + arg(0).T + " " + arg(1).T + ")", S: sBool, Typ: boolT}
	case "isnan":
		return CVal{T: "(fp.isNaN " + arg(0).T + ")", S: sBool, Typ: boolT}
	case "toint":
		v := arg(0)
		if isBV(v.S) {
			if v.Typ == nil || isSigned(v.Typ) {
				return CVal{T: "(sbv2int " + v.T + ")", S: sInt}
			}
			return CVal{T: "(bv2int " + v.T + ")", S: sInt}
		}
		return e.coerce(v, sInt, nil)
	}
	// conversion T(x)
	if t := e.tryType(x.Fun); t != nil && len(x.Args) == 1 {
		v := arg(0)
		ts := g.sortOf(t)
		if v.lit != nil {
			return e.coerce(v, ts, t)
		}
		if v.Typ == nil {
			cfail("conversion of untyped value")
		}
		if ts == sAny {
			if v.S == sAny {
				return CVal{T: v.T, S: sAny, Typ: t}
			}
			return CVal{T: g.box(e.fv.c, v.T, v.Typ), S: sAny, Typ: t}
		}
		sv := &SV{v: Val{v.T, v.S}, typ: v.Typ}
		out := e.fv.convert(e.st, sv, v.Typ, t)
		return CVal{T: out.v.T, S: ts, Typ: t}
	}
	cfail("unknown function %s", name)
	return CVal{}
}

func (e *CEnv) tryType(x ast.Expr) (t types.Type) {
	defer func() {
		if r := recover(); r != nil {
			t = nil
		}
	}()
	return e.resolveType(x)
}

// specCall: spec.Name(args) -> (spec!Name args), sorts taken from the prelude declaration.
func (e *CEnv) specCall(name string, args []ast.Expr) CVal {
	sym := "spec!" + name
	sig, ok := e.g().specSigs[sym]
	if !ok {
		cfail("spec function %s is not declared in the prelude", name)
	}
	if len(sig.args) != len(args) {
		cfail("spec.%s takes %d arguments", name, len(sig.args))
	}
	var ts []string
	for i, a := range args {
		v := e.coerce(e.ev(a), sig.args[i], nil)
		if v.S != sig.args[i] {
			// box scalars passed where Any is expected
			if sig.args[i] == sAny && v.Typ != nil {
				v = CVal{T: e.g().box(e.fv.c, v.T, v.Typ), S: sAny}
			} else {
				cfail("spec.%s argument %d has sort %s, want %s", name, i, v.S, sig.args[i])
			}
		}
		ts = append(ts, v.T)
	}
	cv := CVal{T: app(sym, ts...), S: sig.res}
	switch sig.res {
	case sBool:
		cv.Typ = types.Typ[types.Bool]
	case sStr:
		cv.Typ = types.Typ[types.String]
	case sBV64:
		cv.Typ = types.Typ[types.Int]
	case sF64:
		cv.Typ = types.Typ[types.Float64]
	}
	return cv
}
