package main

// SMT text helpers, the symbol registry (prelude declarations emitted on
// demand) and the per-function definition context.

import (
	"fmt"
	"sort"
	"strings"
)

const (
	sBool  = "Bool"
	sInt   = "Int"
	sF64   = "F64"
	sF32   = "F32"
	sStr   = "Str"
	sRef   = "Ref"
	sSlice = "Slice"
	sAny   = "Any"
	sBV64  = "(_ BitVec 64)"
)

func bvSort(w int) string { return fmt.Sprintf("(_ BitVec %d)", w) }

func bvWidth(sort string) int {
	var w int
	if _, err := fmt.Sscanf(sort, "(_ BitVec %d)", &w); err == nil {
		return w
	}
	return 0
}

func isBV(sort string) bool { return strings.HasPrefix(sort, "(_ BitVec ") }

// Val is a typed SMT term.
type Val struct {
	T string // SMT term text
	S string // sort
}

func bvLit(v int64, w int) string {
	if w == 64 {
		return fmt.Sprintf("#x%016x", uint64(v))
	}
	mask := uint64(1)<<uint(w) - 1
	u := uint64(v) & mask
	if w%4 == 0 {
		return fmt.Sprintf("#x%0*x", w/4, u)
	}
	return fmt.Sprintf("(_ bv%d %d)", u, w)
}

func bvULit(u uint64, w int) string {
	if w == 64 {
		return fmt.Sprintf("#x%016x", u)
	}
	mask := uint64(1)<<uint(w) - 1
	u &= mask
	if w%4 == 0 {
		return fmt.Sprintf("#x%0*x", w/4, u)
	}
	return fmt.Sprintf("(_ bv%d %d)", u, w)
}

func and(xs ...string) string {
	var ys []string
	for _, x := range xs {
		if x == "true" || x == "" {
			continue
		}
		if x == "false" {
			return "false"
		}
		ys = append(ys, x)
	}
	switch len(ys) {
	case 0:
		return "true"
	case 1:
		return ys[0]
	}
	return "(and " + strings.Join(ys, " ") + ")"
}

func or(xs ...string) string {
	var ys []string
	for _, x := range xs {
		if x == "false" || x == "" {
			continue
		}
		if x == "true" {
			return "true"
		}
		ys = append(ys, x)
	}
	switch len(ys) {
	case 0:
		return "false"
	case 1:
		return ys[0]
	}
	return "(or " + strings.Join(ys, " ") + ")"
}

func not(x string) string {
	switch x {
	case "true":
		return "false"
	case "false":
		return "true"
	}
	if strings.HasPrefix(x, "(not ") && balancedSingle(x[5:len(x)-1]) {
		return x[5 : len(x)-1]
	}
	return "(not " + x + ")"
}

// balancedSingle reports whether s is exactly one s-expression.
func balancedSingle(s string) bool {
	s = strings.TrimSpace(s)
	if s == "" {
		return false
	}
	if s[0] != '(' {
		return !strings.ContainsAny(s, " ()")
	}
	depth := 0
	inq := false
	for i := 0; i < len(s); i++ {
		switch {
		case s[i] == '|':
			inq = !inq
		case inq:
		case s[i] == '(':
			depth++
		case s[i] == ')':
			depth--
			if depth == 0 && i != len(s)-1 {
				return false
			}
		}
	}
	return depth == 0
}

func implies(a, b string) string {
	if a == "true" {
		return b
	}
	if b == "true" || a == "false" {
		return "true"
	}
	return "(=> " + a + " " + b + ")"
}

func ite(c, a, b string) string {
	if c == "true" {
		return a
	}
	if c == "false" {
		return b
	}
	if a == b {
		return a
	}
	return "(ite " + c + " " + a + " " + b + ")"
}

func eq(a, b string) string {
	if a == b {
		return "true"
	}
	return "(= " + a + " " + b + ")"
}

func sel(arr, idx string) string      { return "(select " + arr + " " + idx + ")" }
func sto(arr, idx, v string) string   { return "(store " + arr + " " + idx + " " + v + ")" }
func app(f string, a ...string) string {
	if len(a) == 0 {
		return f
	}
	return "(" + f + " " + strings.Join(a, " ") + ")"
}

// quoteSym makes an arbitrary string a legal SMT-LIB symbol.
func quoteSym(s string) string {
	simple := true
	for i := 0; i < len(s); i++ {
		c := s[i]
		if !(c >= 'a' && c <= 'z' || c >= 'A' && c <= 'Z' || c >= '0' && c <= '9' || strings.IndexByte("_.!$", c) >= 0) {
			simple = false
			break
		}
	}
	if simple && s != "" && !(s[0] >= '0' && s[0] <= '9') {
		return s
	}
	s = strings.NewReplacer("|", "!", "\\", "!").Replace(s)
	return "|" + s + "|"
}

// sanitize turns a Go type/func name into a symbol fragment without quoting needs.
func sanitize(s string) string {
	var b strings.Builder
	for i := 0; i < len(s); i++ {
		c := s[i]
		switch {
		case c >= 'a' && c <= 'z' || c >= 'A' && c <= 'Z' || c >= '0' && c <= '9' || c == '_' || c == '.':
			b.WriteByte(c)
		case c == '*':
			b.WriteString("ptr.")
		case c == '[':
			b.WriteString("!L")
		case c == ']':
			b.WriteString("!R")
		case c == '/':
			b.WriteByte('.')
		case c == ' ' || c == ',':
			b.WriteByte('_')
		case c == '$':
			b.WriteByte('$')
		default:
			fmt.Fprintf(&b, "!%02x", c)
		}
	}
	return b.String()
}

// ---------------------------------------------------------------------------
// Symbol registry: global declarations (sorts, datatypes, uninterpreted
// functions, spec definitions, axioms). Emitted in registration order when
// referenced by an obligation (cone of influence by token scan).

type Decl struct {
	id    int
	text  string   // full SMT command(s)
	syms  []string // symbols this declaration introduces
	deps  []int    // ids of declarations referenced by text
	axiom bool     // an assertion that must be included when any of `trigger` symbols is present
}

type Registry struct {
	decls  []*Decl
	bySym  map[string]*Decl
	axioms []*Decl // axioms with triggers
	trig   map[*Decl][]string
}

func newRegistry() *Registry {
	return &Registry{bySym: map[string]*Decl{}, trig: map[*Decl][]string{}}
}

func (r *Registry) has(sym string) bool { _, ok := r.bySym[sym]; return ok }

// add registers a declaration introducing syms.
func (r *Registry) add(text string, syms ...string) *Decl {
	d := &Decl{id: len(r.decls), text: text, syms: syms}
	for _, t := range tokens(text) {
		if o, ok := r.bySym[t]; ok {
			d.deps = append(d.deps, o.id)
		}
	}
	r.decls = append(r.decls, d)
	for _, s := range syms {
		r.bySym[s] = d
	}
	return d
}

// addAxiom registers an assertion included whenever all trigger symbols are in the cone.
func (r *Registry) addAxiom(text string, triggers ...string) {
	d := &Decl{id: len(r.decls), text: text, axiom: true}
	for _, t := range tokens(text) {
		if o, ok := r.bySym[t]; ok {
			d.deps = append(d.deps, o.id)
		}
	}
	r.decls = append(r.decls, d)
	r.axioms = append(r.axioms, d)
	r.trig[d] = triggers
}

// tokens splits SMT text into symbol tokens (quoted symbols kept with bars).
func tokens(s string) []string {
	var out []string
	i := 0
	for i < len(s) {
		c := s[i]
		switch {
		case c == '|':
			j := strings.IndexByte(s[i+1:], '|')
			if j < 0 {
				return out
			}
			out = append(out, s[i:i+j+2])
			i += j + 2
		case c == ';':
			j := strings.IndexByte(s[i:], '\n')
			if j < 0 {
				return out
			}
			i += j
		case c == '(' || c == ')' || c == ' ' || c == '\n' || c == '\t':
			i++
		case c == '"':
			j := strings.IndexByte(s[i+1:], '"')
			if j < 0 {
				return out
			}
			i += j + 2
		default:
			j := i
			for j < len(s) && !strings.ContainsRune("() \n\t|", rune(s[j])) {
				j++
			}
			out = append(out, s[i:j])
			i = j
		}
	}
	return out
}

// ---------------------------------------------------------------------------
// Per-function context: declared constants and named definitions.

type Def struct {
	name  string
	sort  string
	body  string // "" for declare-const
	facts []string
	order int
}

type Ctx struct {
	reg   *Registry
	defs  []*Def
	byN   map[string]*Def
	count map[string]int
	cse   map[string]string
	lastDefined string
}

func newCtx(reg *Registry) *Ctx {
	return &Ctx{reg: reg, byN: map[string]*Def{}, count: map[string]int{}}
}

func (c *Ctx) uniq(prefix string) string {
	n := c.count[prefix]
	c.count[prefix] = n + 1
	if n == 0 {
		return quoteSym(prefix)
	}
	return quoteSym(fmt.Sprintf("%s~%d", prefix, n))
}

// Fresh declares an unconstrained constant.
func (c *Ctx) Fresh(prefix, sort string) string {
	name := c.uniq(prefix)
	d := &Def{name: name, sort: sort, order: len(c.defs)}
	c.defs = append(c.defs, d)
	c.byN[name] = d
	return name
}

// Define names a term. Atomic bodies are returned as they are.
func (c *Ctx) Define(prefix, sort, body string) string {
	if !strings.ContainsAny(body, " (") {
		return body
	}
	// common subexpressions share one name, so that a term built twice (by the code and by a contract clause) is recognised as equal syntactically
	key := sort + "\x00" + body
	if c.cse == nil {
		c.cse = map[string]string{}
	}
	if n, ok := c.cse[key]; ok {
		return n
	}
	defer func() { c.cse[key] = c.lastDefined }()
	name := c.uniq(prefix)
	d := &Def{name: name, sort: sort, body: body, order: len(c.defs)}
	c.defs = append(c.defs, d)
	c.byN[name] = d
	c.lastDefined = name
	return name
}

// AddFact attaches an unconditional truth to a named definition; it is
// asserted in every query whose cone contains the name.
func (c *Ctx) AddFact(name, fact string) {
	if d, ok := c.byN[name]; ok {
		d.facts = append(d.facts, fact)
		return
	}
	// unnamed term: attach to a pseudo definition keyed by the fact's tokens
	d := &Def{name: "", sort: "", body: "", facts: []string{fact}, order: len(c.defs)}
	c.defs = append(c.defs, d)
}

// Script renders a complete query: registry declarations and context
// definitions in the cone of influence of the given formulas, then asserts.
func (c *Ctx) Script(asserts []string, getValues []string) string {
	needDef := map[*Def]bool{}
	needDecl := map[int]bool{}
	seenTok := map[string]bool{}
	var work []string
	push := func(text string) {
		for _, t := range tokens(text) {
			if !seenTok[t] {
				seenTok[t] = true
				work = append(work, t)
			}
		}
	}
	for _, a := range asserts {
		push(a)
	}
	var visitDecl func(d *Decl)
	visitDecl = func(d *Decl) {
		if needDecl[d.id] {
			return
		}
		needDecl[d.id] = true
		push(d.text)
	}
	floating := []*Def{}
	for _, d := range c.defs {
		if d.name == "" {
			floating = append(floating, d)
		}
	}
	for {
		for len(work) > 0 {
			t := work[len(work)-1]
			work = work[:len(work)-1]
			if d, ok := c.byN[t]; ok {
				if !needDef[d] {
					needDef[d] = true
					push(d.body)
					push(d.sort)
					for _, f := range d.facts {
						push(f)
					}
				}
				continue
			}
			if d, ok := c.reg.bySym[t]; ok {
				visitDecl(d)
			}
		}
		// triggered axioms
		progress := false
		for _, ax := range c.reg.axioms {
			if needDecl[ax.id] {
				continue
			}
			all := true
			for _, t := range c.reg.trig[ax] {
				if !seenTok[t] {
					all = false
					break
				}
			}
			if all {
				visitDecl(ax)
				progress = true
			}
		}
		// floating facts whose every context symbol is already present
		for _, d := range floating {
			if needDef[d] {
				continue
			}
			all := true
			for _, t := range tokens(d.facts[0]) {
				if _, isDef := c.byN[t]; isDef && !seenTok[t] {
					all = false
					break
				}
			}
			if all {
				needDef[d] = true
				push(d.facts[0])
				progress = true
			}
		}
		if !progress && len(work) == 0 {
			break
		}
	}
	var b strings.Builder
	b.WriteString("(set-option :produce-models true)\n(set-logic ALL)\n")
	ids := make([]int, 0, len(needDecl))
	for id := range needDecl {
		ids = append(ids, id)
	}
	sort.Ints(ids)
	// dependency order (a declaration may have been registered before something it mentions)
	emitted := map[int]bool{}
	var emit func(id int)
	emit = func(id int) {
		if emitted[id] {
			return
		}
		emitted[id] = true
		d := c.reg.decls[id]
		if !d.axiom {
			for _, t := range tokens(d.text) {
				if o, ok := c.reg.bySym[t]; ok && o.id != id && needDecl[o.id] && !o.axiom {
					emit(o.id)
				}
			}
		}
		b.WriteString(d.text)
		b.WriteString("\n")
	}
	for _, id := range ids {
		if !c.reg.decls[id].axiom {
			emit(id)
		}
	}
	for _, id := range ids {
		if c.reg.decls[id].axiom {
			emit(id)
		}
	}
	for _, d := range c.defs {
		if !needDef[d] {
			continue
		}
		if d.name != "" {
			if d.body == "" {
				fmt.Fprintf(&b, "(declare-const %s %s)\n", d.name, d.sort)
			} else {
				fmt.Fprintf(&b, "(define-fun %s () %s %s)\n", d.name, d.sort, d.body)
			}
		}
		for _, f := range d.facts {
			fmt.Fprintf(&b, "(assert %s)\n", f)
		}
	}
	for _, a := range asserts {
		fmt.Fprintf(&b, "(assert %s)\n", a)
	}
	b.WriteString("(check-sat)\n")
	if len(getValues) > 0 {
		var gv []string
		for _, g := range getValues {
			ok := true
			for _, t := range tokens(g) {
				if d, isDef := c.byN[t]; isDef && !needDef[d] {
					ok = false
				}
			}
			if ok {
				gv = append(gv, g)
			}
		}
		if len(gv) > 0 {
			fmt.Fprintf(&b, "(get-value (%s))\n", strings.Join(gv, " "))
		}
	}
	return b.String()
}
