package main

import (
	"strings"
	"encoding/json"
	"os"
)

// Per-property metadata that goes into evidence files.

var propLevels = map[string]string{}

// levelOf: the level claimed for the property in /verif/claims.json (the evidence must carry the same level as the manifest).
func levelOf(prop string) string {
	if l, ok := propLevels[prop]; ok {
		return l
	}
	var claims struct {
		Checks map[string]struct {
			Category string `json:"category"`
		} `json:"checks"`
	}
	for _, p := range []string{os.Getenv("VERIF_CLAIMS"), "/verif/claims.json", "claims.json"} {
		if p == "" {
			continue
		}
		if b, err := os.ReadFile(p); err == nil && json.Unmarshal(b, &claims) == nil {
			if c, ok := claims.Checks[prop]; ok && c.Category != "" {
				return c.Category
			}
		}
	}
	return "proof"
}

var propExplanations = map[string]string{}

func propExplanation(prop string) string {
	if e, ok := propExplanations[prop]; ok {
		return e
	}
	return "contracts on the real functions, verification conditions generated from their SSA, discharged by SMT solvers"
}

func assumptionsFor(g *Gen, prop string) []string {
	out := []string{
		"SQL text -> AST (sqlparser.Parse) is trusted; theorems are stated over ASTs and Go values; AST node lists contain no nil entry and the engine's callees do not write AST fields",
		"go/packages, go/types and go/ssa (golang.org/x/tools v0.29.0) give a faithful IR of the working tree; the SSA->SMT translation of govc is trusted (guarded by the must-fail and harmless-edit corpora and by replay of refutations)",
		"machine arithmetic is NOT treated as mathematical: integers are bit-vectors of their Go width, floats are IEEE-754 (SMT FloatingPoint); only allocation time stamps are mathematical integers; float->int conversion of out-of-range values is left unspecified, as in Go",
		"library contracts assumed, not proved: fmt.Sprintf(\"%v\", x) is a function FmtV(x) with FmtV(string s) = s; other Sprintf calls are uninterpreted functions of their arguments; strings.Compare is a total order returning -1/0/1; strings.ToLower/ToUpper are functions (the Unicode case maps); strings.Split/SplitN around a non-empty separator return at least one piece; strings.ReplaceAll and the other string functions without a model are deterministic functions of their arguments; utf8.DecodeRuneInString returns a width between 0 and min(4, len), 0 iff the string is empty; regexp.FindAllString of a pattern whose syntax tree has minimum match length >= 1 returns non-empty matches (the minimum is computed by the generator); sort.Slice permutes its slice and calls less inside it; bytes.Buffer / strings.Builder writes and hash.Hash.Write never fail; sha256/sha1/md5/sha512.New return usable hashes; sync.Mutex/RWMutex/WaitGroup follow a ghost held/counter model; maps.Copy copies every entry; every other library call returns fresh unconstrained results and may modify anything reachable from its arguments",
		"user-supplied functions (registered functions, CTE thunks, error handlers) may do anything to what they can reach, except that they do not write the rows they are handed and do not panic inside error handlers; function values stored in documents and function tables are non-nil",
		"goroutine interleavings are not modelled (a go statement is a fork whose body is verified as a function against its own contract; lock, ownership and wait-group obligations stand in for schedules; data-race freedom follows under the Go memory model's DRF-SC guarantee)",
		"lock state is call-invariant: every function that locks carries lock-balance obligations, so by induction over the call tree a call returns with every mutex as it found it",
		"scalar cells (bool, float64, string) reachable only through one pointer are not aliased by other objects",
		"slices, strings and maps are smaller than 2^40 elements (Go's allocator guarantees far less)",
		"no unsafe code and no cgo in the module (checked: the packages import neither unsafe nor C)",
		"termination is proved only where a contract gives a measure; recursion over the finite AST and the finite document is not measured",
	}
	if g != nil {
		var ws []string
		for _, key := range g.contractOrder {
			k := g.contracts[key]
			if k != nil && len(k.Writes) > 0 {
				ws = append(ws, key+" writes "+strings.Join(k.Writes, ", "))
			}
			if k != nil && k.Trusted != "" {
				ws = append(ws, key+" trusted: "+k.Trusted)
			}
		}
		if len(ws) > 0 {
			out = append(out, "write permissions and trusted contracts declared in the contract files (not proved): "+strings.Join(ws, "; "))
		}
	}
	out = append(out, g.specAxioms...)
	return out
}
