package main

import (
	"encoding/json"
	"os"
)

// Per-property metadata that goes into evidence files.

var propLevels = map[string]string{}

// levelOf: the level claimed for the property in /verif/claims.json (the evidence must carry the same level as the manifest).
func levelOf(prop string) string {
	if l, ok := propLevels[prop]; ok {
		return l
	}
	var claims struct {
		Checks map[string]struct {
			Category string `json:"category"`
		} `json:"checks"`
	}
	for _, p := range []string{os.Getenv("VERIF_CLAIMS"), "/verif/claims.json", "claims.json"} {
		if p == "" {
			continue
		}
		if b, err := os.ReadFile(p); err == nil && json.Unmarshal(b, &claims) == nil {
			if c, ok := claims.Checks[prop]; ok && c.Category != "" {
				return c.Category
			}
		}
	}
	return "proof"
}

var propExplanations = map[string]string{}

func propExplanation(prop string) string {
	if e, ok := propExplanations[prop]; ok {
		return e
	}
	return "contracts on the real functions, verification conditions generated from their SSA, discharged by SMT solvers"
}

func assumptionsFor(g *Gen, prop string) []string {
	out := []string{
		"SQL text -> AST (sqlparser.Parse) is trusted; theorems are stated over ASTs and Go values",
		"library functions are replaced by the assumed contracts listed in DESIGN.md section 2.6 (fmt, strings, strconv, regexp, sort, maps, bytes.Buffer, sync, crypto, encoding)",
		"goroutine interleavings are not modelled (a go statement is a fork whose effects are havocked; lock/ownership obligations stand in for schedules)",
		"slices, strings and maps are smaller than 2^40 elements (Go's allocator guarantees far less)",
	}
	out = append(out, g.specAxioms...)
	return out
}
