package main

func replayModel(g *Gen, o *Obligation, rf *ReplayFile) {}
