package main

// Replay of a refuting model on the real code.
//
// 1. the failing query is re-run asking for the values of the function's
//    inputs (and, for strings and []any, their lengths and first elements);
// 2. the values are rendered as Go literals in an in-package test that calls
//    the real function under recover and prints its results with type tags;
//    the test is injected with `go test -overlay` (nothing is written to the
//    repository);
// 3. a safety obligation is confirmed when the real call panics; a
//    postcondition is confirmed when the clause, evaluated by the solver on
//    the concrete inputs and the concrete outputs of the real run (library
//    functions the spec leaves uninterpreted are pinned to what the real run
//    printed for them), is false.

import (
	"encoding/json"
	"fmt"
	"go/types"
	"math"
	"os"
	"os/exec"
	"path/filepath"
	"strconv"
	"strings"
	"time"

	"golang.org/x/tools/go/ssa"
)

type goVal struct {
	facts []string // for heap-shaped values: what pins the symbolic term to the literal (length, elements)
	lit  string // Go literal
	smt  string // SMT term of the same value (for scalars)
	ok   bool
	desc string
}

func parseBV(a string) (uint64, int, bool) {
	switch {
	case strings.HasPrefix(a, "#x"):
		u, err := strconv.ParseUint(a[2:], 16, 64)
		return u, (len(a) - 2) * 4, err == nil
	case strings.HasPrefix(a, "#b"):
		u, err := strconv.ParseUint(a[2:], 2, 64)
		return u, len(a) - 2, err == nil
	}
	return 0, 0, false
}

func signed(u uint64, w int) int64 {
	if w < 64 && u&(1<<uint(w-1)) != 0 {
		return int64(u) - (1 << uint(w))
	}
	return int64(u)
}

// decodeFloat: (fp s e m) | (_ +zero e s) | (_ NaN ..) ...
func decodeFloat(n *sx, bits int) (float64, bool) {
	if n.list == nil {
		return 0, false
	}
	if len(n.list) == 4 && n.list[0].atom == "fp" {
		s, _, ok1 := parseBV(n.list[1].atom)
		e, ew, ok2 := parseBV(n.list[2].atom)
		m, mw, ok3 := parseBV(n.list[3].atom)
		if !ok1 || !ok2 || !ok3 {
			return 0, false
		}
		if ew == 11 && mw == 52 {
			return math.Float64frombits(s<<63 | e<<52 | m), true
		}
		if ew == 8 && mw == 23 {
			return float64(math.Float32frombits(uint32(s<<31 | e<<23 | m))), true
		}
		return 0, false
	}
	if len(n.list) == 4 && n.list[0].atom == "_" {
		switch n.list[1].atom {
		case "+zero":
			return 0, true
		case "-zero":
			return math.Copysign(0, -1), true
		case "+oo":
			return math.Inf(1), true
		case "-oo":
			return math.Inf(-1), true
		case "NaN":
			return math.NaN(), true
		}
	}
	return 0, false
}

func floatLit(f float64, bits int) string {
	switch {
	case math.IsNaN(f):
		if bits == 32 {
			return "float32(math.NaN())"
		}
		return "math.NaN()"
	case math.IsInf(f, 1):
		if bits == 32 {
			return "float32(math.Inf(1))"
		}
		return "math.Inf(1)"
	case math.IsInf(f, -1):
		if bits == 32 {
			return "float32(math.Inf(-1))"
		}
		return "math.Inf(-1)"
	}
	if bits == 32 {
		return fmt.Sprintf("math.Float32frombits(0x%x)", math.Float32bits(float32(f)))
	}
	return fmt.Sprintf("math.Float64frombits(0x%x)", math.Float64bits(f))
}

// typeExpr renders a type as Go source valid inside package pkg.
func typeExpr(t types.Type, pkg *types.Package) string {
	return types.TypeString(t, func(p *types.Package) string {
		if p == pkg {
			return ""
		}
		return p.Name()
	})
}

type replayCtx struct {
	depth int
	facts []string
	g      *Gen
	fv     *FnV
	values map[string]*sx // get-value results by term text
	strs   map[string]string
	pkg    *types.Package
}

// strOf builds a concrete string for a Str-sorted term from str!len / str!at values in the model.
func (rc *replayCtx) strOf(term string) (string, bool) {
	ln, ok := rc.values["(str!len "+term+")"]
	if !ok {
		return "", false
	}
	u, _, ok := parseBV(ln.atom)
	if !ok || u > 64 {
		return "", false
	}
	b := make([]byte, u)
	for i := range b {
		b[i] = 'a'
		if v, ok := rc.values[fmt.Sprintf("(str!at %s %s)", term, bvLit(int64(i), 64))]; ok {
			if c, _, ok := parseBV(v.atom); ok {
				b[i] = byte(c)
			}
		}
	}
	return string(b), true
}

// decode a model value of Go type t (given as parsed s-expression) into a Go literal.
func (rc *replayCtx) decode(n *sx, t types.Type, term string) goVal {
	g := rc.g
	s := g.sortOf(t)
	tn := typeExpr(t, rc.pkg)
	switch {
	case s == sBool:
		return goVal{lit: tn + "(" + n.atom + ")", smt: n.atom, ok: n.atom == "true" || n.atom == "false"}
	case isBV(s):
		u, w, ok := parseBV(n.atom)
		if !ok {
			return goVal{}
		}
		if isSigned(t) {
			return goVal{lit: fmt.Sprintf("%s(%d)", tn, signed(u, w)), smt: n.atom, ok: true}
		}
		return goVal{lit: fmt.Sprintf("%s(%d)", tn, u), smt: n.atom, ok: true}
	case s == sF64 || s == sF32:
		bits := 64
		if s == sF32 {
			bits = 32
		}
		f, ok := decodeFloat(n, bits)
		if !ok {
			return goVal{}
		}
		return goVal{lit: tn + "(" + floatLit(f, bits) + ")", smt: n.String(), ok: true}
	case s == sStr:
		str, ok := rc.strOf(term)
		if !ok {
			return goVal{}
		}
		return goVal{lit: tn + "(" + strconv.Quote(str) + ")", smt: rc.strConst(str), ok: true}
	case s == sAny:
		if n.list == nil {
			if n.atom == "a!nil" {
				return goVal{lit: "nil", smt: "a!nil", ok: true}
			}
			return goVal{}
		}
		ctor := n.list[0].atom
		for _, c := range g.anyOrder {
			if c.ctor != ctor {
				continue
			}
			if st, isSlice := c.typ.Underlying().(*types.Slice); isSlice && c.sort == sSlice && !c.boxed && rc.depth < 1 && g.sortOf(st.Elem()) == sAny {
				// an array inside an interface value: one more level, elements read from the entry heap
				rc.depth++
				inner := rc.decodeSlice("("+c.sel+" "+term+")", st, c.typ)
				rc.depth--
				if !inner.ok {
					return goVal{}
				}
				return goVal{lit: "any(" + inner.lit + ")", smt: term, ok: true, facts: append([]string{"((_ is " + c.ctor + ") " + term + ")"}, inner.facts...)}
			}
			if c.boxed || c.sort == sRef || c.sort == sSlice {
				return goVal{}
			}
			inner := rc.decode(n.list[1], c.typ, "("+c.sel+" "+term+")")
			if !inner.ok {
				return goVal{}
			}
			return goVal{lit: "any(" + inner.lit + ")", smt: "(" + c.ctor + " " + inner.smt + ")", ok: true}
		}
	}
	return goVal{}
}

func (rc *replayCtx) strConst(s string) string {
	if n, ok := rc.strs[s]; ok {
		return n
	}
	n := fmt.Sprintf("rs!%d", len(rc.strs))
	rc.strs[s] = n
	return n
}

func parseGetValue(out string) map[string]*sx {
	res := map[string]*sx{}
	i := strings.Index(out, "((")
	if i < 0 {
		return res
	}
	n, _ := readSx(out, i)
	if n == nil {
		return res
	}
	for _, p := range n.list {
		if len(p.list) == 2 {
			res[p.list[0].String()] = p.list[1]
		}
	}
	return res
}

func replayModel(g *Gen, o *Obligation, rf *ReplayFile) {
	fv := o.fv
	fn := fv.fn
	if fn.Parent() != nil || fn.Signature.Recv() != nil || o.Script == "" {
		rf.Note = "replay: only package-level functions are replayed automatically (closures and methods need their receiver/bindings rebuilt)"
		return
	}
	if o.Kind != "S" && o.Kind != "E" {
		return
	}
	rc := &replayCtx{g: g, fv: fv, strs: map[string]string{}, pkg: fv.pkgTypes()}
	// 1. re-run asking for everything needed to rebuild the inputs
	var gv []string
	var decodable []string // interface-valued terms the decoder would like to be nil, a number, a string, a bool or an array
	for i, p := range fn.Params {
		t := fv.paramTerms[i]
		gv = append(gv, t)
		switch g.sortOf(p.Type()) {
		case sStr:
			gv = append(gv, strTerms(t)...)
		case sAny:
			for _, c := range g.anyOrder {
				if c.sort == sStr {
					gv = append(gv, strTerms("("+c.sel+" "+t+")")...)
				}
			}
			decodable = append(decodable, t)
		case sSlice:
			// a slice of scalars, strings or interface values: its length and first elements, read from the entry heap
			st, ok := p.Type().Underlying().(*types.Slice)
			if !ok {
				break
			}
			gv = append(gv, "(s!len "+t+")")
			for k := 0; k < replaySliceMax; k++ {
				et := rc.sliceElemTerm(t, st.Elem(), k)
				gv = append(gv, et)
				switch g.sortOf(st.Elem()) {
				case sStr:
					gv = append(gv, strTerms(et)...)
				case sAny:
					for _, c := range g.anyOrder {
						if c.sort == sStr {
							gv = append(gv, strTerms("("+c.sel+" "+et+")")...)
						}
						if ist, isSlice := c.typ.Underlying().(*types.Slice); isSlice && c.sort == sSlice && !c.boxed && g.sortOf(ist.Elem()) == sAny {
							inner := "(" + c.sel + " " + et + ")"
							gv = append(gv, "(s!len "+inner+")")
							for k2 := 0; k2 < replaySliceMax; k2++ {
								it := rc.sliceElemTerm(inner, ist.Elem(), k2)
								gv = append(gv, it)
								if g.sortOf(ist.Elem()) == sAny {
									decodable = append(decodable, it)
									for _, c2 := range g.anyOrder {
										if c2.sort == sStr {
											gv = append(gv, strTerms("("+c2.sel+" "+it+")")...)
										}
									}
								}
							}
						}
					}
					decodable = append(decodable, et)
				}
			}
		}
	}
	script := o.Script
	if j := strings.LastIndex(script, "(get-value"); j >= 0 {
		script = script[:j]
	}
	// make sure str!len/str!at are declared even when the cone did not contain them
	const strSort = "(define-sort Str () Int)"
	if !strings.Contains(script, "(declare-fun str!len") {
		script = strings.Replace(script, strSort, strSort+"\n(declare-fun str!len (Str) (_ BitVec 64))", 1)
	}
	if !strings.Contains(script, "(declare-fun str!at") {
		script = strings.Replace(script, strSort, strSort+"\n(declare-fun str!at (Str (_ BitVec 64)) (_ BitVec 8))", 1)
	}
	{
		// a term over a heap component the query never mentions cannot be asked for (it is not declared there)
		var keep []string
		for _, t := range gv {
			ok := true
			for _, tok := range tokens(t) {
				if strings.HasPrefix(tok, "|H") && !strings.Contains(script, tok) {
					ok = false
				}
			}
			if ok {
				keep = append(keep, t)
			}
		}
		gv = keep
		var keepD []string
		for _, t := range decodable {
			ok := true
			for _, tok := range tokens(t) {
				if strings.HasPrefix(tok, "|H") && !strings.Contains(script, tok) {
					ok = false
				}
			}
			if ok {
				keepD = append(keepD, t)
			}
		}
		decodable = keepD
	}
	// first ask for a model whose interface values are of kinds the decoder can write down (any model refutes the
	// obligation; one with plain values can also be replayed); fall back to an unconstrained model
	var prefer []string
	for _, t := range decodable {
		var alts []string
		alts = append(alts, eq(t, "a!nil"))
		for _, c := range g.anyOrder {
			if c.boxed {
				continue
			}
			if c.sort == sStr || c.sort == sBool || c.sort == sF64 {
				alts = append(alts, "((_ is "+c.ctor+") "+t+")")
			}
			if _, isSlice := c.typ.Underlying().(*types.Slice); isSlice && c.sort == sSlice && types.Identical(c.typ.Underlying().(*types.Slice).Elem(), types.NewInterfaceType(nil, nil)) {
				alts = append(alts, "((_ is "+c.ctor+") "+t+")")
			}
		}
		prefer = append(prefer, or(alts...))
	}
	var preferStr []string
	for _, t := range gv {
		if strings.HasPrefix(t, "(s!len ") {
			prefer = append(prefer, "(bvule "+t+" "+bvLit(replaySliceMax-1, 64)+")")
		}
		if strings.HasPrefix(t, "(str!len ") {
			prefer = append(prefer, "(bvule "+t+" "+bvLit(4, 64)+")")
			// a string that starts with a capital letter tells the case maps apart and survives trimming
			inner := strings.TrimSuffix(strings.TrimPrefix(t, "(str!len "), ")")
			preferStr = append(preferStr, and("(bvuge "+t+" "+bvLit(1, 64)+")", eq("(str!at "+inner+" "+bvLit(0, 64)+")", "#x41")))
		}
	}
	for _, t := range decodable {
		for _, c := range g.anyOrder {
			if c.sort == sF64 && !c.boxed {
				// finite, small numbers: conversions to integers are then defined
				v := "(" + c.sel + " " + t + ")"
				prefer = append(prefer, implies("((_ is "+c.ctor+") "+t+")", and("(fp.leq "+v+" ((_ to_fp 11 53) RNE 1000.0))", "(fp.geq "+v+" ((_ to_fp 11 53) RNE (- 1000.0)))")))
			}
		}
	}
	gvLine := "(get-value (" + strings.Join(gv, " ") + "))\n"
	base := script
	res, out := "unknown", ""
	if k := strings.LastIndex(base, "(check-sat)"); k >= 0 && len(prefer) > 0 {
		for _, ps := range [][]string{append(append([]string{}, prefer...), preferStr...), prefer} {
			pref := base[:k] + "(assert " + and(ps...) + ")\n" + base[k:]
			res, out, _ = runSolver(solvers[0], pref+gvLine, 20, "replay")
			if res == "sat" {
				break
			}
		}
	}
	script += gvLine
	if res != "sat" {
		res, out, _ = runSolver(solvers[0], script, 30, "replay")
	}
	if res != "sat" {
		res, out, _ = runSolver(solvers[1], script, 30, "replay")
	}
	if workDir != "" {
		os.RemoveAll(workDir)
		workDir = ""
	}
	if res != "sat" {
		rf.Note = "replay: the model could not be re-obtained with input values (" + res + ")"
		return
	}
	rc.values = parseGetValue(out)
	rf.Inputs = map[string]string{}
	var args []string
	var argSMT []string
	for i, p := range fn.Params {
		t := fv.paramTerms[i]
		n, ok := rc.values[t]
		if !ok {
			// not in the cone: any value will do
			n = nil
		}
		var v goVal
		if g.sortOf(p.Type()) == sRef && paramUnused(p) {
			// a pointer or map the function never touches: nil will do, whatever the model says
			v = goVal{lit: "(" + typeExpr(p.Type(), rc.pkg) + ")(nil)", smt: t, ok: true}
		} else if st, isSlice := p.Type().Underlying().(*types.Slice); isSlice {
			v = rc.decodeSlice(t, st, p.Type())
		} else if n != nil {
			v = rc.decode(n, p.Type(), t)
		} else {
			v = rc.zeroVal(p.Type())
		}
		rc.facts = append(rc.facts, v.facts...)
		if !v.ok {
			rf.Note = fmt.Sprintf("replay: input %s of type %s could not be rebuilt from the model (heap-shaped inputs are not decoded)", p.Name(), p.Type())
			return
		}
		rf.Inputs[p.Name()] = v.lit
		args = append(args, v.lit)
		argSMT = append(argSMT, v.smt)
	}
	// 2. the test
	callee := fn.Name()
	if ta := fn.TypeArgs(); len(ta) > 0 {
		var ts []string
		for _, t := range ta {
			ts = append(ts, typeExpr(t, rc.pkg))
		}
		callee = fn.Origin().Name() + "[" + strings.Join(ts, ", ") + "]"
	}
	nres := fn.Signature.Results().Len()
	var lhs []string
	for i := 0; i < nres; i++ {
		lhs = append(lhs, fmt.Sprintf("r%d", i))
	}
	var b strings.Builder
	fmt.Fprintf(&b, "package %s\n\nimport (\n\t\"fmt\"\n\t\"math\"\n\t\"strings\"\n\t\"testing\"\n)\n\nvar _ = math.NaN\nvar _ = strings.Compare\n\n", rc.pkg.Name())
	b.WriteString("func zzTag(v any) string {\n\tswitch x := v.(type) {\n\tcase nil:\n\t\treturn \"nil|\"\n\tcase float64:\n\t\treturn fmt.Sprintf(\"float64|%x\", math.Float64bits(x))\n\tcase float32:\n\t\treturn fmt.Sprintf(\"float32|%x\", math.Float32bits(x))\n\tcase error:\n\t\treturn \"error|\" + fmt.Sprintf(\"%q\", x.Error())\n\tcase string:\n\t\treturn fmt.Sprintf(\"string|%q\", x)\n\tdefault:\n\t\treturn fmt.Sprintf(\"%T|%v\", v, v)\n\t}\n}\n\n")
	b.WriteString("func TestZZVerifReplay(t *testing.T) {\n\tdefer func() {\n\t\tif r := recover(); r != nil {\n\t\t\tfmt.Printf(\"ZZ-PANIC %v\\n\", r)\n\t\t}\n\t}()\n")
	for i, a := range args {
		fmt.Fprintf(&b, "\ta%d := %s\n", i, a)
	}
	var an []string
	for i := range args {
		an = append(an, fmt.Sprintf("a%d", i))
	}
	call := callee + "(" + strings.Join(an, ", ") + ")"
	if nres > 0 {
		fmt.Fprintf(&b, "\t%s := %s\n", strings.Join(lhs, ", "), call)
		for i := range lhs {
			fmt.Fprintf(&b, "\tfmt.Printf(\"ZZ-RESULT %d %%s\\n\", zzTag(r%d))\n", i, i)
		}
	} else {
		fmt.Fprintf(&b, "\t%s\n", call)
	}
	// Go twins of functions the spec leaves uninterpreted
	for i, p := range fn.Params {
		if g.sortOf(p.Type()) == sAny {
			fmt.Fprintf(&b, "\tfmt.Printf(\"ZZ-FMTV %d %%q\\n\", fmt.Sprintf(\"%%v\", a%d))\n", i, i)
		}
	}
	b.WriteString("\tfmt.Println(\"ZZ-DONE\")\n}\n")
	rf.ReplayTest = b.String()
	pkgDir := g.repo
	if rel := strings.TrimPrefix(rc.pkg.Path(), modPath); rel != "" {
		pkgDir = filepath.Join(g.repo, strings.TrimPrefix(rel, "/"))
	}
	outText, err := runOverlayTest(g.repo, pkgDir, b.String())
	rf.ReplayOut = outText
	rf.ReplayCmd = "go test -overlay <generated test> -vet=off -timeout 60s -run TestZZVerifReplay " + pkgDir
	if err != nil && !strings.Contains(outText, "ZZ-") {
		rf.Note = "replay: the generated test did not run: " + err.Error()
		return
	}
	panicked := strings.Contains(outText, "ZZ-PANIC")
	if o.Kind == "S" {
		rf.Confirmed = panicked
		if panicked {
			rf.Note = "confirmed: the real function panics on the decoded inputs"
		}
		return
	}
	if panicked {
		rf.Note = "replay: the real function panicked on these inputs instead of returning"
		return
	}
	// 3. evaluate the clause on the concrete inputs and outputs
	if o.ClauseRef == nil {
		return
	}
	rc.evalClause(o, rf, outText, argSMT)
}

func strTerms(t string) []string {
	out := []string{"(str!len " + t + ")"}
	for i := 0; i < 6; i++ {
		out = append(out, fmt.Sprintf("(str!at %s %s)", t, bvLit(int64(i), 64)))
	}
	return out
}

func (rc *replayCtx) zeroVal(t types.Type) goVal {
	s := rc.g.sortOf(t)
	tn := typeExpr(t, rc.pkg)
	switch {
	case s == sBool:
		return goVal{lit: "false", smt: "false", ok: true}
	case isBV(s):
		return goVal{lit: tn + "(0)", smt: bvLit(0, bvWidth(s)), ok: true}
	case s == sF64:
		return goVal{lit: tn + "(0)", smt: "(_ +zero 11 53)", ok: true}
	case s == sAny:
		return goVal{lit: "nil", smt: "a!nil", ok: true}
	case s == sStr:
		return goVal{lit: tn + "(\"\")", smt: "str!empty", ok: true}
	}
	return goVal{}
}

func runOverlayTest(repo, pkgDir, src string) (string, error) {
	dir, err := os.MkdirTemp("", "govc-replay-")
	if err != nil {
		return "", err
	}
	defer os.RemoveAll(dir)
	testFile := filepath.Join(dir, "zz_verif_replay_test.go")
	if err := os.WriteFile(testFile, []byte(src), 0o644); err != nil {
		return "", err
	}
	ov := map[string]map[string]string{"Replace": {filepath.Join(pkgDir, "zz_verif_replay_test.go"): testFile}}
	ob, _ := json.Marshal(ov)
	ovFile := filepath.Join(dir, "overlay.json")
	os.WriteFile(ovFile, ob, 0o644)
	cmd := exec.Command("go", "test", "-overlay", ovFile, "-vet=off", "-count=1", "-v", "-timeout", "60s", "-run", "TestZZVerifReplay", ".")
	cmd.Dir = pkgDir
	cmd.Env = append(os.Environ(), "GOFLAGS=-mod=mod", "GOPROXY=off", "GOSUMDB=off", "GOTOOLCHAIN=local")
	done := make(chan struct{})
	var out []byte
	go func() { out, err = cmd.CombinedOutput(); close(done) }()
	select {
	case <-done:
	case <-time.After(150 * time.Second):
		cmd.Process.Kill()
		<-done
	}
	return string(out), err
}

// evalClause asks the solver whether the clause is false on the concrete run.
func (rc *replayCtx) evalClause(o *Obligation, rf *ReplayFile, outText string, argSMT []string) {
	fv := rc.fv
	g := rc.g
	fn := fv.fn
	// concrete results
	var results []*SV
	resTypes := fn.Signature.Results()
	for i := 0; i < resTypes.Len(); i++ {
		var line string
		for _, l := range strings.Split(outText, "\n") {
			if strings.HasPrefix(l, fmt.Sprintf("ZZ-RESULT %d ", i)) {
				line = strings.TrimPrefix(l, fmt.Sprintf("ZZ-RESULT %d ", i))
			}
		}
		if line == "" {
			rf.Note = "replay: no result printed by the real run"
			return
		}
		term, ok := rc.encodeResult(line, resTypes.At(i).Type())
		if !ok {
			rf.Note = "replay: result " + line + " cannot be expressed as a closed term"
			return
		}
		results = append(results, fv.fromTerm(term, resTypes.At(i).Type()))
	}
	// bind parameters to their concrete values
	saved := map[string]*SV{}
	for i, p := range fn.Params {
		name := p.Name()
		saved[name] = fv.params[name]
		fv.params[name] = fv.fromTerm(argSMT[i], p.Type())
	}
	env := fv.contractEnv(fv.entry, fv.entry, results)
	t, err := env.evalBool(o.ClauseRef.Text)
	for n, sv := range saved {
		fv.params[n] = sv
	}
	if err != nil {
		rf.Note = "replay: clause evaluation: " + err.Error()
		return
	}
	// pin the uninterpreted functions to what the real run printed
	facts := append([]string{}, rc.facts...)
	for i, p := range fn.Params {
		if g.sortOf(p.Type()) != sAny {
			continue
		}
		for _, l := range strings.Split(outText, "\n") {
			if strings.HasPrefix(l, fmt.Sprintf("ZZ-FMTV %d ", i)) {
				s, err := strconv.Unquote(strings.TrimPrefix(l, fmt.Sprintf("ZZ-FMTV %d ", i)))
				if err == nil {
					facts = append(facts, eq(app("spec!FmtV", argSMT[i]), rc.strConst(s)))
				}
			}
		}
	}
	// the case maps the spec leaves uninterpreted are the library's: pin them on the concrete strings
	{
		var have []string
		for s := range rc.strs {
			have = append(have, s)
		}
		for _, s := range have {
			if g.reg.has("spec!ToLower") {
				facts = append(facts, eq(app("spec!ToLower", rc.strConst(s)), rc.strConst(strings.ToLower(s))))
			}
			if g.reg.has("spec!ToUpper") {
				facts = append(facts, eq(app("spec!ToUpper", rc.strConst(s)), rc.strConst(strings.ToUpper(s))))
			}
		}
	}
	var decls []string
	var names []string
	var vals []string
	for s, n := range rc.strs {
		decls = append(decls, fmt.Sprintf("(define-fun %s () Str %d)", n, 1000000+len(decls)))
		names = append(names, n)
		vals = append(vals, s)
	}
	for i := range names {
		for j := range names {
			facts = append(facts, eq(app("str!cmp", names[i], names[j]), smtInt(fmt.Sprint(strings.Compare(vals[i], vals[j])))))
		}
	}
	script := fv.c.Script([]string{and(append(facts, not(t))...)}, nil)
	// declarations of the concrete strings go right after the Str sort
	script = strings.Replace(script, "(define-sort Str () Int)", "(define-sort Str () Int)\n"+strings.Join(decls, "\n"), 1)
	{
		// on a concrete run every instance the quantified prelude axioms could produce is pinned by the facts above;
		// the axioms themselves only keep the solver from answering `sat`
		var keep []string
		for _, l := range strings.Split(script, "\n") {
			if !strings.HasPrefix(l, "(assert (forall") {
				keep = append(keep, l)
			}
		}
		script = strings.Join(keep, "\n")
	}
	if dbg := os.Getenv("GOVC_DEBUG_REPLAY"); dbg != "" {
		os.WriteFile(dbg, []byte(script), 0o644)
	}
	res, _, _ := runSolver(solvers[0], script, 30, "replay-eval")
	if res != "sat" && res != "unsat" {
		res, _, _ = runSolver(solvers[3], script, 30, "replay-eval")
	}
	if workDir != "" {
		os.RemoveAll(workDir)
		workDir = ""
	}
	switch res {
	case "sat":
		rf.Confirmed = true
		rf.Note = "confirmed: the clause, evaluated on the inputs of the model and on what the real function returned for them, is false"
	case "unsat":
		rf.Note = "replay: the real function satisfies the clause on the decoded inputs (the model does not transfer; typically a value the decoder had to choose freely)"
	default:
		rf.Note = "replay: the solver could not evaluate the clause on the concrete run (" + res + ")"
	}
}

// encodeResult turns a printed result (`type|value`) into an SMT term of Go type t.
func (rc *replayCtx) encodeResult(line string, t types.Type) (string, bool) {
	g := rc.g
	parts := strings.SplitN(line, "|", 2)
	if len(parts) != 2 {
		return "", false
	}
	dyn, val := parts[0], parts[1]
	scalar := func(typ types.Type, v string) (string, bool) {
		s := g.sortOf(typ)
		switch {
		case s == sBool:
			return v, v == "true" || v == "false"
		case isBV(s):
			if i, err := strconv.ParseInt(v, 10, 64); err == nil {
				return bvLit(i, bvWidth(s)), true
			}
			if u, err := strconv.ParseUint(v, 10, 64); err == nil {
				return bvULit(u, bvWidth(s)), true
			}
		case s == sF64:
			if u, err := strconv.ParseUint(v, 16, 64); err == nil {
				return f64Lit(math.Float64frombits(u)), true
			}
		case s == sF32:
			if u, err := strconv.ParseUint(v, 16, 32); err == nil {
				return f32Lit(math.Float32frombits(uint32(u))), true
			}
		case s == sStr:
			if str, err := strconv.Unquote(v); err == nil {
				return rc.strConst(str), true
			}
		}
		return "", false
	}
	if g.sortOf(t) != sAny {
		return scalar(t, val)
	}
	if dyn == "nil" {
		return "a!nil", true
	}
	if dyn == "error" {
		return "", false
	}
	for _, c := range g.anyOrder {
		if typeExpr(c.typ, rc.pkg) == dyn || shortTypeName(c.typ) == dyn {
			if c.boxed || c.sort == sRef || c.sort == sSlice {
				return "", false
			}
			inner, ok := scalar(c.typ, val)
			if !ok {
				return "", false
			}
			return "(" + c.ctor + " " + inner + ")", true
		}
	}
	return "", false
}

var _ = ssa.BuilderMode(0)

const replaySliceMax = 4

// sliceElemTerm: the k-th element of the slice term t in the function's entry heap.
func (rc *replayCtx) sliceElemTerm(t string, elem types.Type, k int) string {
	h := rc.fv.heapGet(rc.fv.entry, rc.g.compElem(elem))
	return sel(sel(h, "(s!ref "+t+")"), "(bvadd (s!off "+t+") "+bvLit(int64(k), 64)+")")
}

// decodeSlice rebuilds a slice input (length and elements) from the model; the SMT side stays the symbolic parameter,
// pinned by facts about its length and elements.
func (rc *replayCtx) decodeSlice(t string, st *types.Slice, full types.Type) goVal {
	es := rc.g.sortOf(st.Elem())
	if !(es == sAny || es == sStr || es == sBool || isBV(es) || es == sF64 || es == sF32) {
		return goVal{}
	}
	ln, ok := rc.values["(s!len "+t+")"]
	if !ok {
		// the slice is not in the cone of the query: an empty one will do
		return goVal{lit: typeExpr(full, rc.pkg) + "{}", smt: t, ok: true}
	}
	u, _, ok := parseBV(ln.atom)
	if !ok || u > replaySliceMax {
		return goVal{}
	}
	facts := []string{eq("(s!len "+t+")", bvLit(int64(u), 64))}
	var lits []string
	for k := 0; k < int(u); k++ {
		et := rc.sliceElemTerm(t, st.Elem(), k)
		n, ok := rc.values[et]
		var v goVal
		if ok {
			v = rc.decode(n, st.Elem(), et)
		} else {
			v = rc.zeroVal(st.Elem())
		}
		if !v.ok {
			return goVal{}
		}
		lits = append(lits, v.lit)
		if len(v.facts) > 0 {
			facts = append(facts, v.facts...)
		} else {
			facts = append(facts, eq(et, v.smt))
		}
	}
	return goVal{lit: typeExpr(full, rc.pkg) + "{" + strings.Join(lits, ", ") + "}", smt: t, ok: true, facts: facts}
}

// paramUnused: the parameter has no use in the body (debug references aside).
func paramUnused(p *ssa.Parameter) bool {
	for _, r := range *p.Referrers() {
		if _, ok := r.(*ssa.DebugRef); !ok {
			return false
		}
	}
	return true
}
