package main

// Discipline of package-level variables (C13): every one is declared guarded_by a mutex, init-only (written only by
// init and the registration functions named as writers) or immutable (written only by init). Accesses of guarded
// variables are lock obligations generated during symbolic execution; the rest is decided here from the SSA.

import (
	"fmt"
	"go/token"
	"go/types"
	"go/constant"
	"regexp/syntax"
	"sort"
	"strings"

	"golang.org/x/tools/go/ssa"
)

// callerObligations: a function with a declared caller list is called directly by those functions only.
func (g *Gen) callerObligations(prop string) []*Obligation {
	var out []*Obligation
	for _, cd := range g.callersDecl {
		if !hasProp(cd.Props, prop) {
			continue
		}
		allowed := map[string]bool{}
		for _, c := range cd.Callers {
			allowed[cd.Pkg+"."+c] = true
		}
		target := cd.Pkg + "." + cd.Callee
		var bad []string
		found := false
		for _, fname := range g.fnames {
			fn := g.funcs[fname]
			for _, b := range fn.Blocks {
				for _, ins := range b.Instrs {
					ci, ok := ins.(ssa.CallInstruction)
					if !ok {
						continue
					}
					if c := ci.Common().StaticCallee(); c != nil && canonName(c) == target {
						found = true
						if !allowed[fname] {
							bad = append(bad, fname+" ("+g.fset.Position(ins.Pos()).String()+")")
						}
					}
				}
			}
		}
		o := &Obligation{Name: target + ".G.callers", Kind: "G", Props: cd.Props, Func: "(call graph)",
			Clause: target + " is called directly only by " + strings.Join(cd.Callers, ", ") + " (what each of them owes the callee, or does with its result, is in their contracts)"}
		switch {
		case !found:
			o.Static, o.Result = "fails: no direct call of "+target+" found (the declaration is stale)", "failed"
		case len(bad) > 0:
			sort.Strings(bad)
			o.Static, o.Result = "fails: also called by "+strings.Join(bad, ", "), "failed"
		default:
			o.Static = "holds"
		}
		out = append(out, o)
	}
	return out
}

// typeObligations: declared type identities (a type switch over one spelling must match values built with the other).
func (g *Gen) typeObligations(prop string) []*Obligation {
	var out []*Obligation
	for _, d := range g.sameTypes {
		if !hasProp(d.Props, prop) {
			continue
		}
		o := &Obligation{Name: d.Pkg + ".G.same-type:" + d.A, Kind: "G", Props: d.Props, Func: "(types)", Clause: d.A + " and " + d.B + " denote the same type"}
		if d.Distinct {
			o.Name = d.Pkg + ".G.distinct-type:" + d.A
			o.Clause = d.A + " and " + d.B + " denote different types"
		}
		var tp *types.Package
		for path, sp := range g.spkgs {
			if strings.HasPrefix(path, modPath) && sp.Pkg.Name() == d.Pkg {
				tp = sp.Pkg
			}
		}
		if tp == nil {
			o.Static, o.Result = "fails: no package "+d.Pkg, "failed"
			out = append(out, o)
			continue
		}
		ta, ea := types.Eval(g.fset, tp, token.NoPos, d.A)
		tb, eb := types.Eval(g.fset, tp, token.NoPos, d.B)
		switch {
		case ea != nil || eb != nil || !ta.IsType() || !tb.IsType():
			o.Static, o.Result = fmt.Sprintf("fails: cannot evaluate the type expressions (%v, %v)", ea, eb), "failed"
		case d.Distinct && types.Identical(ta.Type, tb.Type):
			o.Static, o.Result = "fails: "+d.A+" is "+tb.Type.String()+" itself (an alias): a type assertion on it matches every such value", "failed"
		case !d.Distinct && !types.Identical(ta.Type, tb.Type):
			o.Static, o.Result = "fails: "+ta.Type.String()+" is not "+tb.Type.String(), "failed"
		default:
			o.Static = "holds"
		}
		out = append(out, o)
	}
	return out
}

func (g *Gen) globalObligations(prop string) []*Obligation {
	var out []*Obligation
	wanted := false
	for _, gd := range g.globalsDecl {
		if hasProp(gd.Props, prop) {
			wanted = true
		}
	}
	if !wanted {
		return nil
	}
	var pkgs []string
	for p := range g.spkgs {
		if strings.HasPrefix(p, modPath) {
			pkgs = append(pkgs, p)
		}
	}
	sort.Strings(pkgs)
	for _, pp := range pkgs {
		sp := g.spkgs[pp]
		var names []string
		for n, m := range sp.Members {
			if _, ok := m.(*ssa.Global); ok && !strings.HasPrefix(n, "init$") {
				names = append(names, n)
			}
		}
		sort.Strings(names)
		for _, n := range names {
			gl := sp.Members[n].(*ssa.Global)
			key := sp.Pkg.Name() + "." + n
			gd := g.globalsDecl[key]
			o := &Obligation{Name: key + ".G.declared", Kind: "G", Props: []string{prop}, Func: "(globals)", Clause: "package-level variable " + key + " has a declared sharing discipline", Pos: g.fset.Position(gl.Pos()).String()}
			if gd == nil {
				o.Static = "fails: no `//@ global " + n + " ...` declaration"
				o.Result = "failed"
				out = append(out, o)
				continue
			}
			o.Static = "holds"
			out = append(out, o)
			if gd.Kind == "guarded_by" || gd.Kind == "mutex" {
				continue
			}
			// writers
			allowed := map[string]bool{"init": true}
			for _, w := range gd.Writers {
				allowed[w] = true
			}
			var bad []string
			for _, fname := range g.fnames {
				fn := g.funcs[fname]
				if fn.Pkg != sp && !(fn.Pkg == nil && fn.Origin() != nil && fn.Origin().Pkg == sp) {
					continue
				}
				if writesGlobal(fn, gl) {
					short := fn.Name()
					if strings.HasPrefix(short, "init#") || short == "init" {
						continue
					}
					if !allowed[short] {
						bad = append(bad, fname)
					}
				}
			}
			w := &Obligation{Name: key + ".G." + gd.Kind, Kind: "G", Props: []string{prop}, Func: "(globals)",
				Clause: fmt.Sprintf("%s is %s: written only by init%s", key, gd.Kind, map[bool]string{true: " and " + strings.Join(gd.Writers, ", "), false: ""}[len(gd.Writers) > 0]), Pos: g.fset.Position(gl.Pos()).String()}
			if len(bad) > 0 {
				w.Static = "fails: also written by " + strings.Join(bad, ", ")
				w.Result = "failed"
			} else {
				w.Static = "holds"
			}
			out = append(out, w)
		}
	}
	return out
}

// writesGlobal: fn stores to the variable, or updates / deletes from / appends to the map or slice it holds.
func writesGlobal(fn *ssa.Function, gl *ssa.Global) bool {
	fromGlobal := func(v ssa.Value) bool {
		if u, ok := v.(*ssa.UnOp); ok {
			return u.X == gl
		}
		return false
	}
	for _, b := range fn.Blocks {
		for _, ins := range b.Instrs {
			switch x := ins.(type) {
			case *ssa.Store:
				if x.Addr == gl {
					return true
				}
			case *ssa.MapUpdate:
				if fromGlobal(x.Map) {
					return true
				}
			case *ssa.Call:
				if bi, ok := x.Common().Value.(*ssa.Builtin); ok && bi.Name() == "delete" && fromGlobal(x.Common().Args[0]) {
					return true
				}
			case *ssa.IndexAddr:
				if fromGlobal(x.X) {
					for _, r := range *x.Referrers() {
						if st, ok := r.(*ssa.Store); ok && st.Addr == x {
							return true
						}
					}
				}
			}
		}
	}
	return false
}

// globalSetNonNilOnce: every store to the variable in the module is in a package initialiser and stores a value that
// cannot be nil (make(...), a composite literal, regexp.MustCompile); there is at least one such store.
func (g *Gen) globalSetNonNilOnce(gl *ssa.Global) bool {
	if r, ok := g.globalNonNil[gl]; ok {
		return r
	}
	n, good := 0, true
	for _, fname := range g.fnames {
		fn := g.funcs[fname]
		for _, b := range fn.Blocks {
			for _, ins := range b.Instrs {
				st, ok := ins.(*ssa.Store)
				if !ok || st.Addr != gl {
					continue
				}
				n++
				if !(fn.Name() == "init" || strings.HasPrefix(fn.Name(), "init#")) {
					good = false
				}
				switch v := st.Val.(type) {
				case *ssa.MakeMap, *ssa.MakeSlice, *ssa.Alloc, *ssa.MakeChan:
				case *ssa.Call:
					if c := v.Common().StaticCallee(); c == nil || c.String() != "regexp.MustCompile" {
						good = false
					}
				default:
					good = false
				}
			}
		}
	}
	if gl.Pkg != nil {
		if init := gl.Pkg.Func("init"); init != nil {
			for _, b := range init.Blocks {
				for _, ins := range b.Instrs {
					if st, ok := ins.(*ssa.Store); ok && st.Addr == gl {
						n++
						switch v := st.Val.(type) {
						case *ssa.MakeMap, *ssa.MakeSlice, *ssa.Alloc, *ssa.MakeChan:
						case *ssa.Call:
							if c := v.Common().StaticCallee(); c == nil || c.String() != "regexp.MustCompile" {
								good = false
							}
						default:
							good = false
						}
					}
				}
			}
		}
	}
	r := good && n > 0
	g.globalNonNil[gl] = r
	return r
}

// globalPattern: the variable is assigned once, in init, regexp.MustCompile of a constant.
func (g *Gen) globalPattern(gl *ssa.Global) (string, bool) {
	if !g.globalSetNonNilOnce(gl) {
		return "", false
	}
	pat, n := "", 0
	scan := func(fn *ssa.Function) {
		for _, b := range fn.Blocks {
			for _, ins := range b.Instrs {
				st, ok := ins.(*ssa.Store)
				if !ok || st.Addr != gl {
					continue
				}
				n++
				if c, ok := st.Val.(*ssa.Call); ok && len(c.Common().Args) == 1 {
					if k, ok := c.Common().Args[0].(*ssa.Const); ok && k.Value != nil && k.Value.Kind() == constant.String {
						pat = constant.StringVal(k.Value)
						continue
					}
				}
				n += 100
			}
		}
	}
	for _, fname := range g.fnames {
		scan(g.funcs[fname])
	}
	if init := gl.Pkg.Func("init"); init != nil {
		scan(init)
	}
	return pat, n == 1
}

// patternMinLen: a lower bound on the number of characters of any match of the pattern (0 when unknown).
func patternMinLen(pat string) int {
	re, err := syntax.Parse(pat, syntax.Perl)
	if err != nil {
		return 0
	}
	var min func(r *syntax.Regexp) int
	min = func(r *syntax.Regexp) int {
		switch r.Op {
		case syntax.OpLiteral:
			return len(r.Rune)
		case syntax.OpCharClass, syntax.OpAnyCharNotNL, syntax.OpAnyChar:
			return 1
		case syntax.OpCapture:
			return min(r.Sub[0])
		case syntax.OpPlus:
			return min(r.Sub[0])
		case syntax.OpRepeat:
			return r.Min * min(r.Sub[0])
		case syntax.OpConcat:
			n := 0
			for _, s := range r.Sub {
				n += min(s)
			}
			return n
		case syntax.OpAlternate:
			n := -1
			for _, s := range r.Sub {
				if m := min(s); n < 0 || m < n {
					n = m
				}
			}
			if n < 0 {
				return 0
			}
			return n
		}
		return 0
	}
	return min(re)
}
