package main

// Discipline of package-level variables (C13): every one is declared guarded_by a mutex, init-only (written only by
// init and the registration functions named as writers) or immutable (written only by init). Accesses of guarded
// variables are lock obligations generated during symbolic execution; the rest is decided here from the SSA.

import (
	"fmt"
	"sort"
	"strings"

	"golang.org/x/tools/go/ssa"
)

func (g *Gen) globalObligations(prop string) []*Obligation {
	var out []*Obligation
	wanted := false
	for _, gd := range g.globalsDecl {
		if hasProp(gd.Props, prop) {
			wanted = true
		}
	}
	if !wanted {
		return nil
	}
	var pkgs []string
	for p := range g.spkgs {
		if strings.HasPrefix(p, modPath) {
			pkgs = append(pkgs, p)
		}
	}
	sort.Strings(pkgs)
	for _, pp := range pkgs {
		sp := g.spkgs[pp]
		var names []string
		for n, m := range sp.Members {
			if _, ok := m.(*ssa.Global); ok && !strings.HasPrefix(n, "init$") {
				names = append(names, n)
			}
		}
		sort.Strings(names)
		for _, n := range names {
			gl := sp.Members[n].(*ssa.Global)
			key := sp.Pkg.Name() + "." + n
			gd := g.globalsDecl[key]
			o := &Obligation{Name: key + ".G.declared", Kind: "G", Props: []string{prop}, Func: "(globals)", Clause: "package-level variable " + key + " has a declared sharing discipline", Pos: g.fset.Position(gl.Pos()).String()}
			if gd == nil {
				o.Static = "fails: no `//@ global " + n + " ...` declaration"
				o.Result = "failed"
				out = append(out, o)
				continue
			}
			o.Static = "holds"
			out = append(out, o)
			if gd.Kind == "guarded_by" || gd.Kind == "mutex" {
				continue
			}
			// writers
			allowed := map[string]bool{"init": true}
			for _, w := range gd.Writers {
				allowed[w] = true
			}
			var bad []string
			for _, fname := range g.fnames {
				fn := g.funcs[fname]
				if fn.Pkg != sp && !(fn.Pkg == nil && fn.Origin() != nil && fn.Origin().Pkg == sp) {
					continue
				}
				if writesGlobal(fn, gl) {
					short := fn.Name()
					if strings.HasPrefix(short, "init#") || short == "init" {
						continue
					}
					if !allowed[short] {
						bad = append(bad, fname)
					}
				}
			}
			w := &Obligation{Name: key + ".G." + gd.Kind, Kind: "G", Props: []string{prop}, Func: "(globals)",
				Clause: fmt.Sprintf("%s is %s: written only by init%s", key, gd.Kind, map[bool]string{true: " and " + strings.Join(gd.Writers, ", "), false: ""}[len(gd.Writers) > 0]), Pos: g.fset.Position(gl.Pos()).String()}
			if len(bad) > 0 {
				w.Static = "fails: also written by " + strings.Join(bad, ", ")
				w.Result = "failed"
			} else {
				w.Static = "holds"
			}
			out = append(out, w)
		}
	}
	return out
}

// writesGlobal: fn stores to the variable, or updates / deletes from / appends to the map or slice it holds.
func writesGlobal(fn *ssa.Function, gl *ssa.Global) bool {
	fromGlobal := func(v ssa.Value) bool {
		if u, ok := v.(*ssa.UnOp); ok {
			return u.X == gl
		}
		return false
	}
	for _, b := range fn.Blocks {
		for _, ins := range b.Instrs {
			switch x := ins.(type) {
			case *ssa.Store:
				if x.Addr == gl {
					return true
				}
			case *ssa.MapUpdate:
				if fromGlobal(x.Map) {
					return true
				}
			case *ssa.Call:
				if bi, ok := x.Common().Value.(*ssa.Builtin); ok && bi.Name() == "delete" && fromGlobal(x.Common().Args[0]) {
					return true
				}
			case *ssa.IndexAddr:
				if fromGlobal(x.X) {
					for _, r := range *x.Referrers() {
						if st, ok := r.(*ssa.Store); ok && st.Addr == x {
							return true
						}
					}
				}
			}
		}
	}
	return false
}
