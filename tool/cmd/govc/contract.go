package main

// Contract files: comment-only Go files behind the `verif` build tag in /repo
// (contracts_verif.go per package). Grammar, one directive per `//@` line:
//
//   //@ package-prefix genql            (implicit: the file's package name)
//   //@ func <Name>                     Name as printed by govc -list, without the package prefix;
//   //@                                 `Cmp[*]` applies to every instantiation
//   //@   requires <label>: <expr>
//   //@   ensures <label>[C01,C05]: <expr>
//   //@   loop <k> invariant <label>[C01]: <expr>
//   //@   loop <k> decreases <expr>
//   //@   loop <k> modifies <comp> ...
//   //@   modifies nothing | <comp> ...
//   //@   safety[C05,C10]                tags this function's zero-annotation safety obligations
//   //@   errors[C19]                    tags its error-propagation obligations
//   //@   absorbs <callee> : reason      an error result deliberately not propagated
//   //@   trusted : reason              contract assumed, body not verified
//   //@   continuation lines start with `//@     |`
//   //@ global <name> guarded_by <mutex> | init-only | immutable
//   //@ lemma <label>[C15]: <smt or expr>

import (
	"bufio"
	"fmt"
	"os"
	"path/filepath"
	"regexp"
	"strconv"
	"strings"
)

type Clause struct {
	Kind   string // requires, ensures, invariant, decreases, lemma
	Label  string
	Props  []string
	Text   string
	Loop   int
	Local  bool // proved, not exported to callers
	Defn   bool // definitional: exported to callers, no obligation
	File   string
	Line   int
}

type Contract struct {
	Pkg        string
	Func       string // name pattern without package
	Requires   []*Clause
	Ensures    []*Clause
	LoopInv    map[int][]*Clause
	LoopDec    map[int]*Clause
	LoopMods   map[int][]string
	Modifies   []string
	Nullable   map[string]bool
	Writes     []string // objects (parameters, captured variables, expressions over them) the function may write although it did not allocate them
	SplitReturns bool // postconditions are discharged per return statement (smaller queries) instead of one conjunction per clause
	ErrorIsValue bool // the error result is the function's product (a conversion), not a failure report
	GuardedFree map[string]string // captured variable -> captured mutex that must be held when it is accessed
	RangeOver  map[int]*Clause // loop ordinal -> required `for range <name>` form
	Exhaustive  map[int]*Clause     // loop -> the loop is left only when its range is exhausted, or by a return
	Unconditional map[int]*Clause   // loop -> every iteration runs the whole body: no branch inside the loop but the header's test
	Rereads     map[int]*Clause     // loop -> the loop's bound len(<expr>) is evaluated again before every iteration
	CallAsserts map[string][]*Clause // callee -> assertions checked just before each call of it
	ModAt      map[string][]string // component spelling -> address expressions (only these objects change)
	HasMods    bool
	SafetyTags []string
	SafetyAt   map[string][]string // site substring -> props (restricts the tag to matching sites)
	ErrorTags  []string
	FrameTags  []string
	LockTags   []string
	Absorbs    map[string]string
	Trusted    string
	Pure       bool
	Lemmas     []*Clause
	Synth      bool
	defaultsApplied bool
	OrderTags  []string
	Unordered  map[string]string
	AssumeUserFn bool
	File       string
	Line       int
}

// CallersDecl: the complete list of functions that may call a function directly (a protocol the callers share).
type CallersDecl struct {
	Pkg, Callee string
	Callers     []string
	Props       []string
}

// SameTypeDecl: two type expressions of a package must denote the same type.
type SameTypeDecl struct {
	Pkg, A, B string
	Props     []string
	Distinct  bool // the declaration says the two are different types
}

type FieldDecl struct {
	Pkg, Struct, Field, Mutex string
	Props                     []string
}

type GlobalDecl struct {
	Pkg, Name string
	Kind      string // guarded_by, init-only, immutable, mutex
	Mutex     string
	Writers   []string
	Props     []string
}

type TypeInv struct {
	Pkg, Type string
	Clause    *Clause
}

type LemmaDecl struct {
	Clause *Clause
	Pkg    string
}

var clauseRe = regexp.MustCompile(`^([A-Za-z0-9_\-\.]+)?\s*(\[[A-Z0-9, ]+\])?\s*:\s*(.*)$`)

func parseProps(s string) []string {
	s = strings.Trim(s, "[] ")
	if s == "" {
		return nil
	}
	var out []string
	for _, p := range strings.Split(s, ",") {
		out = append(out, strings.TrimSpace(p))
	}
	return out
}

func (g *Gen) loadContracts() error {
	var files []string
	filepath.Walk(g.repo, func(p string, info os.FileInfo, err error) error {
		if err == nil && !info.IsDir() && filepath.Base(p) == "contracts_verif.go" {
			files = append(files, p)
		}
		return nil
	})
	for _, f := range files {
		if err := g.loadContractFile(f); err != nil {
			return err
		}
	}
	return nil
}

func (g *Gen) loadContractFile(path string) error {
	fh, err := os.Open(path)
	if err != nil {
		return err
	}
	defer fh.Close()
	sc := bufio.NewScanner(fh)
	sc.Buffer(make([]byte, 1<<20), 1<<20)
	pkg := ""
	var cur *Contract
	var lastClause *Clause
	ln := 0
	for sc.Scan() {
		ln++
		line := strings.TrimSpace(sc.Text())
		if strings.HasPrefix(line, "package ") {
			pkg = strings.TrimSpace(strings.TrimPrefix(line, "package "))
			continue
		}
		var body string
		switch {
		case strings.HasPrefix(line, "//@"):
			body = strings.TrimSpace(line[3:])
		case strings.HasPrefix(line, "// @"):
			body = strings.TrimSpace(line[4:])
		default:
			continue
		}
		if body == "" {
			continue
		}
		if strings.HasPrefix(body, "|") {
			if lastClause == nil {
				return fmt.Errorf("%s:%d: continuation without clause", path, ln)
			}
			lastClause.Text += " " + strings.TrimSpace(body[1:])
			continue
		}
		// strip trailing comment
		if i := strings.Index(body, " // "); i >= 0 {
			body = strings.TrimSpace(body[:i])
		}
		word, rest := splitWord(body)
		switch word {
		case "func":
			cur = &Contract{Pkg: pkg, Func: rest, LoopInv: map[int][]*Clause{}, LoopDec: map[int]*Clause{}, LoopMods: map[int][]string{}, Absorbs: map[string]string{}, Unordered: map[string]string{}, Nullable: map[string]bool{}, GuardedFree: map[string]string{}, RangeOver: map[int]*Clause{}, CallAsserts: map[string][]*Clause{}, SafetyAt: map[string][]string{}, ModAt: map[string][]string{}, File: path, Line: ln}
			key := pkg + "." + rest
			if prev, dup := g.contracts[key]; dup {
				cur = prev // a later block for the same function adds clauses to the first
			} else {
				g.contracts[key] = cur
				g.contractOrder = append(g.contractOrder, key)
			}
			lastClause = nil
		case "package-wide":
			// package-wide errors[C19] safety[C10] ... : default tags for every function of the package
			if strings.Contains(rest, "nonnil-params") {
				g.nonnilParams[pkg] = true
			}
			for _, m := range regexp.MustCompile(`(safety|errors|frame|locks|order)\s*\[([A-Z0-9, ]+)\]`).FindAllStringSubmatch(rest, -1) {
				if g.pkgDefaults[pkg] == nil {
					g.pkgDefaults[pkg] = map[string][]string{}
				}
				g.pkgDefaults[pkg][m[1]] = append(g.pkgDefaults[pkg][m[1]], parseProps(m[2])...)
			}
		case "type-invariant":
			// type-invariant *Query wf: <expr over self>
			tn, r2 := splitWord(rest)
			cl, err := parseClause("type-invariant", r2, path, ln)
			if err != nil {
				return err
			}
			g.typeInvs = append(g.typeInvs, &TypeInv{Pkg: pkg, Type: tn, Clause: cl})
			lastClause = cl
		case "recover-handlers":
			// recover-handlers [C10]: generate the structural obligations on deferred recover handlers
			for _, m := range regexp.MustCompile(`\[([A-Z0-9, ]+)\]`).FindAllStringSubmatch(rest, -1) {
				for _, pr := range parseProps(m[1]) {
					g.recoverProps[pr] = true
				}
			}
		case "engine-owned":
			// engine-owned Query.singletonExecutions functions cache ... : maps/slices held in these fields or globals are allocated by the engine, never parts of a document
			for _, f := range strings.Fields(rest) {
				g.engineOwned[pkg+"."+f] = true
			}
		case "crash-root":
			for _, f := range strings.Fields(rest) {
				g.crashRoots[pkg+"."+f] = true
			}
		case "api-root":
			for _, f := range strings.Fields(rest) {
				g.apiRoots[pkg+"."+f] = true
			}
		case "field":
			// field <Struct>.<field> guarded_by <mutex field> [Cnn,...]  -- a map or slice held in a struct field that goroutines
			// share: every read and write of the value loaded from x.<field> happens with x.<mutex field> held
			f := strings.Fields(rest)
			if len(f) < 3 || f[1] != "guarded_by" || !strings.Contains(f[0], ".") {
				return fmt.Errorf("%s:%d: bad field declaration", path, ln)
			}
			fd := &FieldDecl{Pkg: pkg, Struct: f[0][:strings.Index(f[0], ".")], Field: f[0][strings.Index(f[0], ".")+1:], Mutex: f[2]}
			for _, w := range f[3:] {
				if m := regexp.MustCompile(`^\[([A-Z0-9, ]+)\]$`).FindStringSubmatch(w); m != nil {
					fd.Props = append(fd.Props, parseProps(m[1])...)
				}
			}
			if g.fieldsDecl == nil {
				g.fieldsDecl = map[string]*FieldDecl{}
			}
			g.fieldsDecl[fd.Struct+"."+fd.Field] = fd
		case "global":
			f := strings.Fields(rest)
			if len(f) < 2 {
				return fmt.Errorf("%s:%d: bad global", path, ln)
			}
			gd := &GlobalDecl{Pkg: pkg, Name: f[0], Kind: f[1]}
			if f[1] == "guarded_by" && len(f) > 2 {
				gd.Mutex = f[2]
			}
			for i, w := range f {
				if w == "writers" {
					gd.Writers = append(gd.Writers, f[i+1:]...)
				}
				if m := regexp.MustCompile(`^\[([A-Z0-9, ]+)\]$`).FindStringSubmatch(w); m != nil {
					gd.Props = append(gd.Props, parseProps(m[1])...)
				}
			}
			g.globalsDecl[pkg+"."+f[0]] = gd
		case "same-type":
			// same-type [Cnn,...] <type expr> == <type expr>   -- the two expressions denote one type (an alias, not a new type)
			m := regexp.MustCompile(`^\[([A-Z0-9, ]+)\]\s+(.*?)\s+==\s+(.*)$`).FindStringSubmatch(rest)
			if m == nil {
				return fmt.Errorf("%s:%d: bad same-type", path, ln)
			}
			g.sameTypes = append(g.sameTypes, &SameTypeDecl{Pkg: pkg, A: strings.TrimSpace(m[2]), B: strings.TrimSpace(m[3]), Props: parseProps(m[1])})
		case "distinct-type":
			// distinct-type [Cnn,...] <type expr> != <type expr>   -- the two expressions denote different types (a defined type,
			// not an alias: a type assertion on the one does not match values of the other)
			m := regexp.MustCompile(`^\[([A-Z0-9, ]+)\]\s+(.*?)\s+!=\s+(.*)$`).FindStringSubmatch(rest)
			if m == nil {
				return fmt.Errorf("%s:%d: bad distinct-type", path, ln)
			}
			g.sameTypes = append(g.sameTypes, &SameTypeDecl{Pkg: pkg, A: strings.TrimSpace(m[2]), B: strings.TrimSpace(m[3]), Props: parseProps(m[1]), Distinct: true})
		case "callers-of":
			// callers-of <callee> [Cnn,...] : f1 f2 ...   -- the functions allowed to call <callee> directly
			f := strings.Fields(rest)
			if len(f) < 3 {
				return fmt.Errorf("%s:%d: bad callers-of", path, ln)
			}
			cd := &CallersDecl{Pkg: pkg, Callee: f[0]}
			for _, w := range f[1:] {
				if m := regexp.MustCompile(`^\[([A-Z0-9, ]+)\]:?$`).FindStringSubmatch(w); m != nil {
					cd.Props = append(cd.Props, parseProps(m[1])...)
					continue
				}
				if w == ":" {
					continue
				}
				cd.Callers = append(cd.Callers, w)
			}
			g.callersDecl = append(g.callersDecl, cd)
		case "lemma":
			cl, err := parseClause("lemma", rest, path, ln)
			if err != nil {
				return err
			}
			g.lemmas = append(g.lemmas, &LemmaDecl{Clause: cl, Pkg: pkg})
			lastClause = cl
		case "requires", "ensures":
			if cur == nil {
				return fmt.Errorf("%s:%d: clause outside func", path, ln)
			}
			cl, err := parseClause(word, rest, path, ln)
			if err != nil {
				return err
			}
			if word == "requires" {
				cur.Requires = append(cur.Requires, cl)
			} else {
				cur.Ensures = append(cur.Ensures, cl)
			}
			lastClause = cl
		case "loop":
			if cur == nil {
				return fmt.Errorf("%s:%d: clause outside func", path, ln)
			}
			ks, rest2 := splitWord(rest)
			k, err := strconv.Atoi(ks)
			if err != nil {
				return fmt.Errorf("%s:%d: loop ordinal: %v", path, ln, err)
			}
			w2, rest3 := splitWord(rest2)
			switch w2 {
			case "invariant":
				cl, err := parseClause("invariant", rest3, path, ln)
				if err != nil {
					return err
				}
				cl.Loop = k
				cur.LoopInv[k] = append(cur.LoopInv[k], cl)
				lastClause = cl
			case "decreases":
				cl := &Clause{Kind: "decreases", Label: "decreases", Text: rest3, Loop: k, File: path, Line: ln}
				if m := regexp.MustCompile(`^\[([A-Z0-9, ]+)\]\s*:?\s*(.*)$`).FindStringSubmatch(rest3); m != nil {
					cl.Props = parseProps(m[1])
					cl.Text = m[2]
				}
				cur.LoopDec[k] = cl
				lastClause = cl
			case "ascending-range":
				cl, err := parseClause("range", rest3, path, ln)
				if err != nil {
					return err
				}
				cl.Loop = k
				cur.RangeOver[k] = cl
			case "rereads":
				cl, err := parseClause("rereads", rest3, path, ln)
				if err != nil {
					return err
				}
				cl.Loop = k
				if cur.Rereads == nil {
					cur.Rereads = map[int]*Clause{}
				}
				cur.Rereads[k] = cl
			case "exhaustive":
				cl, err := parseClause("exhaustive", rest3, path, ln)
				if err != nil {
					return err
				}
				cl.Loop = k
				if cur.Exhaustive == nil {
					cur.Exhaustive = map[int]*Clause{}
				}
				cur.Exhaustive[k] = cl
			case "unconditional":
				cl, err := parseClause("unconditional", rest3, path, ln)
				if err != nil {
					return err
				}
				cl.Loop = k
				if cur.Unconditional == nil {
					cur.Unconditional = map[int]*Clause{}
				}
				cur.Unconditional[k] = cl
			case "modifies":
				cur.LoopMods[k] = append(cur.LoopMods[k], strings.Fields(rest3)...)
			default:
				return fmt.Errorf("%s:%d: unknown loop directive %q", path, ln, w2)
			}
		case "modifies":
			if cur == nil {
				return fmt.Errorf("%s:%d: clause outside func", path, ln)
			}
			cur.HasMods = true
			if i := strings.Index(rest, " at "); i > 0 {
				comp := strings.TrimSpace(rest[:i])
				cur.ModAt[comp] = append(cur.ModAt[comp], strings.TrimSpace(rest[i+4:]))
			} else if rest != "nothing" {
				cur.Modifies = append(cur.Modifies, strings.Fields(rest)...)
			}
		case "pure":
			cur.Pure = true
			cur.HasMods = true
		case "trusted":
			cur.Trusted = strings.TrimSpace(strings.TrimPrefix(rest, ":"))
			if cur.Trusted == "" {
				cur.Trusted = "no reason given"
			}
		case "at-call":
			// at-call <callee> assert label[Cnn]: expr
			ai := strings.Index(rest, " assert ")
			if ai < 0 {
				return fmt.Errorf("%s:%d: at-call <callee> assert label[..]: expr", path, ln)
			}
			callee, r3 := strings.TrimSpace(rest[:ai]), strings.TrimSpace(rest[ai+8:])
			cl, err := parseClause("assert", r3, path, ln)
			if err != nil {
				return err
			}
			cur.CallAsserts[callee] = append(cur.CallAsserts[callee], cl)
			lastClause = cl
		case "guarded":
			// guarded <var> [<var>...] by <mutex> : captured variables shared between goroutines
			f := strings.Fields(rest)
			for i, w := range f {
				if w == "by" && i+1 < len(f) {
					for _, v := range f[:i] {
						cur.GuardedFree[strings.TrimSuffix(v, ",")] = f[i+1]
					}
				}
			}
		case "nullable":
			for _, f := range strings.Fields(rest) {
				cur.Nullable[strings.TrimSuffix(f, ",")] = true
			}
		case "error-is-value":
			cur.ErrorIsValue = true
		case "split-returns":
			cur.SplitReturns = true
		case "writes":
			for _, f := range strings.Split(rest, ",") {
				if f = strings.TrimSpace(f); f != "" {
					cur.Writes = append(cur.Writes, f)
				}
			}
		case "assume-userfn":
			cur.AssumeUserFn = true
		case "unordered":
			parts := strings.SplitN(rest, "::", 2)
			reason := "declared"
			if len(parts) == 2 {
				reason = strings.TrimSpace(parts[1])
			}
			cur.Unordered[strings.TrimSpace(parts[0])] = reason
		case "absorbs":
			parts := strings.SplitN(rest, ":", 2)
			reason := ""
			if len(parts) == 2 {
				reason = strings.TrimSpace(parts[1])
			}
			cur.Absorbs[strings.TrimSpace(parts[0])] = reason
		default:
			// tag directives: safety[C05,C10], errors[C19], frame[C11], locks[C13]
			if m := regexp.MustCompile(`^(safety|errors|frame|locks|order)\s*\[([A-Z0-9, ]+)\]`).FindStringSubmatch(body); m != nil && cur != nil {
				ps := parseProps(m[2])
				restAfter := strings.TrimSpace(body[len(m[0]):])
				if m[1] == "safety" && strings.HasPrefix(restAfter, "at ") {
					site := strings.TrimSpace(restAfter[3:])
					cur.SafetyAt[site] = append(cur.SafetyAt[site], ps...)
					continue
				}
				switch m[1] {
				case "safety":
					cur.SafetyTags = append(cur.SafetyTags, ps...)
				case "errors":
					cur.ErrorTags = append(cur.ErrorTags, ps...)
				case "frame":
					cur.FrameTags = append(cur.FrameTags, ps...)
				case "locks":
					cur.LockTags = append(cur.LockTags, ps...)
				case "order":
					cur.OrderTags = append(cur.OrderTags, ps...)
				}
				continue
			}
			return fmt.Errorf("%s:%d: unknown directive %q", path, ln, word)
		}
	}
	return sc.Err()
}

func splitWord(s string) (string, string) {
	s = strings.TrimSpace(s)
	i := strings.IndexAny(s, " \t")
	if i < 0 {
		return s, ""
	}
	return s[:i], strings.TrimSpace(s[i+1:])
}

func parseClause(kind, rest, path string, ln int) (*Clause, error) {
	// modifiers after the kind: `local` (proved here, not handed to callers), `defn` (a naming definition: handed to callers, not an obligation)
	local, defn := false, false
	for {
		w, r2 := splitWord(rest)
		if w == "local" {
			local, rest = true, r2
			continue
		}
		if w == "defn" {
			defn, rest = true, r2
			continue
		}
		break
	}
	m := clauseRe.FindStringSubmatch(rest)
	if m == nil {
		return nil, fmt.Errorf("%s:%d: clause must be `label[Cnn,...]: expr`", path, ln)
	}
	return &Clause{Kind: kind, Label: m[1], Props: parseProps(m[2]), Text: strings.TrimSpace(m[3]), File: path, Line: ln, Local: local, Defn: defn}, nil
}

// contractFor finds the contract applying to a function (exact name, or a
// generic pattern `Name[*]` for instantiations).
func (g *Gen) contractFor(canon string) *Contract {
	c := g.explicitContract(canon)
	pkg := canon
	if i := strings.Index(canon, "."); i > 0 {
		pkg = canon[:i]
	}
	d := g.pkgDefaults[pkg]
	if d == nil {
		return c
	}
	if c == nil {
		if s, ok := g.synth[canon]; ok {
			return s
		}
		c = &Contract{Pkg: pkg, Func: strings.TrimPrefix(canon, pkg+"."), LoopInv: map[int][]*Clause{}, LoopDec: map[int]*Clause{}, LoopMods: map[int][]string{},
			Absorbs: map[string]string{}, Unordered: map[string]string{}, Nullable: map[string]bool{}, GuardedFree: map[string]string{}, RangeOver: map[int]*Clause{}, CallAsserts: map[string][]*Clause{}, SafetyAt: map[string][]string{}, ModAt: map[string][]string{}, Synth: true}
		g.synth[canon] = c
	}
	if !c.defaultsApplied {
		c.defaultsApplied = true
		c.SafetyTags = mergeProps(c.SafetyTags, d["safety"])
		c.ErrorTags = mergeProps(c.ErrorTags, d["errors"])
		c.FrameTags = mergeProps(c.FrameTags, d["frame"])
		c.LockTags = mergeProps(c.LockTags, d["locks"])
		c.OrderTags = mergeProps(c.OrderTags, d["order"])
	}
	return c
}

func mergeProps(a, b []string) []string {
	for _, x := range b {
		if !hasProp(a, x) {
			a = append(a, x)
		}
	}
	return a
}

func (g *Gen) explicitContract(canon string) *Contract {
	if c, ok := g.contracts[canon]; ok {
		return c
	}
	if i := strings.Index(canon, "["); i > 0 {
		if c, ok := g.contracts[canon[:i]+"[*]"]; ok {
			return c
		}
	}
	return nil
}
