#!/bin/bash
# usage: confirm_seed.sh <seed-name> <worktree> <property> [demo package dir relative to repo, default .]
# Takes a seeded change from an agent's scratch worktree, stores it under /verif/seeded/<seed-name>/, and confirms on a scratch
# copy of /repo (never /repo itself) that it (1) applies, (2) builds, (3) keeps the existing tests green, (4) makes the
# demonstration fail, (5) while the demonstration passes without it; then runs the property check against it.
set -u
name=$1; wt=$2; prop=$3; pkg=${4:-.}
export GOFLAGS=-mod=mod GOPROXY=off GOSUMDB=off GOTOOLCHAIN=local
out=/verif/seeded/$name; mkdir -p "$out"
( cd "$wt" && git diff -- . ':!zz_demo_test.go' ':!**/zz_demo_test.go' ) > "$out/patch.diff"
demo=$(cd "$wt" && git ls-files --others --exclude-standard | grep zz_demo_test.go | head -1)
[ -n "$demo" ] && cp "$wt/$demo" "$out/zz_demo_test.go"
scratch=$(mktemp -d /tmp/seedchk-XXXXXX); trap 'rm -rf "$scratch"' EXIT
rsync -a --exclude .git /repo/ "$scratch/with/"; rsync -a --exclude .git /repo/ "$scratch/without/"
applies=yes; ( cd "$scratch/with" && patch -p1 -s < "$out/patch.diff" ) || applies=no
builds=no; ( cd "$scratch/with" && go build ./... && go vet ./... ) >/dev/null 2>&1 && builds=yes
suite=pass; for i in 1 2 3; do ( cd "$scratch/with" && go test -vet=off -count=1 ./... ) >/dev/null 2>&1 || suite=fail; done
demodir=$(dirname "${demo:-zz_demo_test.go}")
cp "$out/zz_demo_test.go" "$scratch/with/$demodir/" 2>/dev/null; cp "$out/zz_demo_test.go" "$scratch/without/$demodir/" 2>/dev/null
demo_with=pass; ( cd "$scratch/with/$demodir" && go test -vet=off -count=1 -run TestZZDemo . ) > "$scratch/dw.txt" 2>&1 || demo_with=fail
demo_without=pass; ( cd "$scratch/without/$demodir" && go test -vet=off -count=1 -run TestZZDemo . ) > "$scratch/dwo.txt" 2>&1 || demo_without=fail
rm -f "$scratch/with/$demodir/zz_demo_test.go"
/verif/selftest/check_on.sh "$scratch/with" "$prop" quick "$scratch/out" > "$scratch/check.txt" 2>&1
rc=$?
detected=no; [ $rc -eq 1 ] && grep -q '^VIOLATION' "$scratch/check.txt" && detected=yes
grep -E '^failed obligation|^VIOLATION|^govc:' "$scratch/check.txt" | cut -c1-300 > "$out/check_output.txt"
tail -5 "$scratch/dw.txt" | cut -c1-300 > "$out/demo_with_change.txt"
cat > "$out/confirm.json" <<JSON
{"seed": "$name", "property": "$prop", "applies_to_repo_head": "$applies", "builds_and_vets": "$builds", "existing_suite_3_runs": "$suite",
 "demo_with_change": "$demo_with", "demo_without_change": "$demo_without", "check_exit": $rc, "detected_by_check": "$detected",
 "repo_head": "$(git -C /repo rev-parse --short HEAD)", "verif_head": "$(git -C /verif rev-parse --short HEAD)"}
JSON
cat "$out/confirm.json"; head -6 "$out/check_output.txt"
