#!/bin/bash
# Applies every patch of selftest/harmless (edits that leave the property intact: renamed locals that no contract names,
# reordered independent statements, comments, an equivalent rewrite) to a scratch copy of /repo and expects the property's
# quick check to stay quiet (exit 0, no VIOLATION). Prints one line per patch; exit 1 if a check alarms.
cd "$(dirname "$0")"
rc=0
for p in harmless/*.patch; do
  prop=$(basename "$p" | cut -d_ -f1)
  out=$(./run_mutant.sh "$p" "$prop" quick 2>&1); r=$?
  if [ $r -eq 0 ] && ! echo "$out" | grep -q '^VIOLATION'; then echo "quiet     $(basename $p)"
  else echo "ALARM     $(basename $p) rc=$r: $(echo "$out" | grep -m1 '^failed' | cut -c1-200)"; rc=1; fi
done
exit $rc
