#!/bin/bash
# usage: run_mutant.sh <patch> <property> [tier]
# Applies a patch to a scratch copy of /repo (never to /repo itself), runs the property check on it, removes the copy.
set -u
patch=$(readlink -f "$1"); prop=$2; tier=${3:-quick}
scratch=$(mktemp -d /tmp/govc-mutant-XXXXXX)
trap 'rm -rf "$scratch"' EXIT
rsync -a --exclude .git /repo/ "$scratch/repo/"
( cd "$scratch/repo" && patch -p1 -s < "$patch" ) || { echo "patch failed"; exit 3; }
/verif/selftest/check_on.sh "$scratch/repo" "$prop" "$tier" "$scratch/out"
rc=$?
if [ -d "$scratch/out/replays" ]; then
  for f in $(ls "$scratch"/out/replays/*/*.json 2>/dev/null | head -3); do
    echo "--- $(basename "$f")"; jq -c '{confirmed: .confirmed_on_real_code, inputs: .decoded_inputs, note: .note}' "$f" | cut -c1-400
  done
fi
exit $rc
