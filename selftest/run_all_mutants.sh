#!/bin/bash
# Runs every must-fail patch of selftest/mutants (named <property>_<what>.patch) and every seeded change of /verif/seeded
# against its property's quick check, 4 at a time; prints one line per patch and exits 1 if one is NOT detected.
cd "$(dirname "$0")"
jobs=${JOBS:-4}
run() {
  p=$1; prop=$(basename "$p" | cut -d_ -f1)
  out=$(./run_mutant.sh "$p" "$prop" quick 2>&1); rc=$?
  if [ $rc -eq 1 ] && echo "$out" | grep -q '^VIOLATION'; then echo "detected  $(basename $p)  $(echo "$out" | grep -c '^failed obligation') failed obligations"
  elif [ $rc -eq 3 ]; then echo "STALE     $(basename $p) (does not apply any more)"
  else echo "MISSED    $(basename $p) rc=$rc"; fi
}
export -f run
ls mutants/*.patch | xargs -P $jobs -I{} bash -c 'run {}' | sort > /tmp/mutants.$$.txt
cat /tmp/mutants.$$.txt
! grep -q '^MISSED' /tmp/mutants.$$.txt; rc=$?; rm -f /tmp/mutants.$$.txt; exit $rc
