#!/bin/bash
# usage: check_on.sh <repo copy> <property> <tier> <outdir>
# Runs the property check (bounded stand-ins included) against a copy of the repository instead of /repo.
set -u
repo=$1; prop=$2; tier=${3:-quick}; out=$4
export GOFLAGS=-mod=mod GOPROXY=off GOSUMDB=off GOTOOLCHAIN=local
mkdir -p "$out"
bounded_arg=""
lc=$(echo "$prop" | tr 'A-Z' 'a-z')
if [ -f "/verif/bounded/${lc}_test.go" ]; then
  rsync -a /verif/bounded/ "$out/bounded/"
  sed -i "s#=> /repo#=> $repo#" "$out/bounded/go.mod"
  ( cd "$out/bounded" && VERIF_TIER="$tier" VERIF_BOUNDED_OUT="$out/bounded.json" go test -count=1 -timeout 20m -run "^Test${prop}\$" . ) > "$out/bounded.log" 2>&1
  bounded_arg="-bounded $out/bounded.json"
fi
/verif/bin/govc -repo "$repo" check -prop "$prop" -tier "$tier" -evidence "$out/ev.json" -replays "$out/replays" -known /verif/known_findings.json $bounded_arg
