#!/usr/bin/env python3
# usage: mkharmless.py <name> <file> <<< "old\n===\nnew"   -> writes selftest/harmless/<name>.patch; `count` occurrences allowed via env ALL=1
import sys, subprocess, tempfile, os, shutil
name, rel = sys.argv[1], sys.argv[2]
spec = sys.stdin.read()
old, new = spec.split("\n===\n")
old = old.strip("\n"); new = new.strip("\n")
src = open(os.path.join("/repo", rel)).read()
n = src.count(old)
if n == 0 or (n != 1 and not os.environ.get("ALL")):
    print("pattern occurs", n, "times"); sys.exit(1)
d = tempfile.mkdtemp()
os.makedirs(os.path.join(d, "a", os.path.dirname(rel)), exist_ok=True)
os.makedirs(os.path.join(d, "b", os.path.dirname(rel)), exist_ok=True)
open(os.path.join(d, "a", rel), "w").write(src)
open(os.path.join(d, "b", rel), "w").write(src.replace(old, new))
out = subprocess.run(["diff", "-u", os.path.join("a", rel), os.path.join("b", rel)], cwd=d, capture_output=True, text=True).stdout
open(f"/verif/selftest/harmless/{name}.patch", "w").write(out)
shutil.rmtree(d)
print("wrote", name, len(out.splitlines()), "lines")
