#!/bin/bash
# usage: reconfirm_seed.sh <seed-name> <property>   -- re-runs the confirmation of a stored seed against the current /repo HEAD
set -u
name=$1; prop=$2
export GOFLAGS=-mod=mod GOPROXY=off GOSUMDB=off GOTOOLCHAIN=local
out=/verif/seeded/$name
scratch=$(mktemp -d /tmp/seedchk-XXXXXX); trap 'rm -rf "$scratch"' EXIT
rsync -a --exclude .git /repo/ "$scratch/with/"; rsync -a --exclude .git /repo/ "$scratch/without/"
applies=yes; ( cd "$scratch/with" && patch -p1 -s < "$out/patch.diff" ) || applies=no
builds=no; ( cd "$scratch/with" && go build ./... && go vet ./... ) >/dev/null 2>&1 && builds=yes
suite=pass; for i in 1 2 3; do ( cd "$scratch/with" && go test -vet=off -count=1 ./... ) >/dev/null 2>&1 || suite=fail; done
pkgline=$(head -20 "$out/zz_demo_test.go" | grep -m1 '^package ' | awk '{print $2}')
demodir=.; [ "$pkgline" = "compare" ] && demodir=compare; [ "$pkgline" = "sanitize" ] && demodir=sanitizer
cp "$out/zz_demo_test.go" "$scratch/with/$demodir/"; cp "$out/zz_demo_test.go" "$scratch/without/$demodir/"
demo_with=pass; ( cd "$scratch/with/$demodir" && go test -vet=off -count=1 -run TestZZDemo . ) > "$scratch/dw.txt" 2>&1 || demo_with=fail
demo_without=pass; ( cd "$scratch/without/$demodir" && go test -vet=off -count=1 -run TestZZDemo . ) > "$scratch/dwo.txt" 2>&1 || demo_without=fail
rm -f "$scratch/with/$demodir/zz_demo_test.go"
/verif/selftest/check_on.sh "$scratch/with" "$prop" quick "$scratch/out" > "$scratch/check.txt" 2>&1
rc=$?
detected=no; [ $rc -eq 1 ] && grep -q '^VIOLATION' "$scratch/check.txt" && detected=yes
grep -E '^failed obligation|^VIOLATION|^govc:' "$scratch/check.txt" | sed "s#$scratch#<scratch>#g" | cut -c1-300 > "$out/check_output.txt"
tail -5 "$scratch/dw.txt" | cut -c1-300 > "$out/demo_with_change.txt"
cat > "$out/confirm.json" <<JSON
{"seed": "$name", "property": "$prop", "applies_to_repo_head": "$applies", "builds_and_vets": "$builds", "existing_suite_3_runs": "$suite",
 "demo_with_change": "$demo_with", "demo_without_change": "$demo_without", "check_exit": $rc, "detected_by_check": "$detected",
 "repo_head": "$(git -C /repo rev-parse --short HEAD)", "verif_head": "$(git -C /verif rev-parse --short HEAD)"}
JSON
cat "$out/confirm.json"; head -4 "$out/check_output.txt"
