#!/bin/bash
# Runs the quick (or given) tier of every claimed check and prints one line per property; exit 1 if any alarms.
cd "$(dirname "$0")"
tier=${1:-quick}; rc=0
for p in $(jq -r '.checks[].property_id' MANIFEST.json); do
  out=$(./check.sh $p $tier 2>&1); r=$?
  echo "$p exit=$r $(echo "$out" | grep '^govc:' | tail -1)"
  echo "$out" | grep -E '^(VIOLATION|KNOWN-FINDING|failed)' | cut -c1-220
  [ $r -ge 2 ] && echo "$out" | tail -5 | cut -c1-300
  [ $r -ne 0 ] && rc=1
done
exit $rc
