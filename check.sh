#!/bin/bash
# usage: check.sh <property id> [quick|thorough]      or: check.sh --replay <replay file>
# Regenerates every obligation of the property from /repo's current working tree and discharges it.
cd "$(dirname "$0")"
export GOPROXY=off GOSUMDB=off GOTOOLCHAIN=local GOFLAGS=-mod=mod
if [ "$1" = "--replay" ]; then
  jq -r '"obligation: \(.obligation)\nclause: \(.clause)\nsolver: \(.solver_result)\nconfirmed on real code: \(.confirmed_on_real_code)\nnote: \(.note)\ninputs: \(.decoded_inputs)\n--- generated test ---\n\(.replay_test // "")\n--- output of the real code ---\n\(.replay_output // "")"' "$2"
  exit 0
fi
prop=$1
tier=${2:-${VERIF_TIER:-quick}}
if [ ! -x bin/govc ] || [ -n "$(find tool/cmd -newer bin/govc -name '*.go' 2>/dev/null | head -1)" ]; then
  ./setup.sh >/dev/null || { echo "setup failed"; exit 2; }
fi
mkdir -p evidence replays
bounded_arg=""
lc=$(echo "$prop" | tr 'A-Z' 'a-z')
if [ -f "bounded/${lc}_test.go" ]; then
  # bounded stand-ins for the parts of the property no contract within reach can decide; run on the real code, labelled bounded
  bout="$PWD/evidence/.bounded_$prop.json"; rm -f "$bout"
  ( cd bounded && VERIF_TIER="$tier" VERIF_BOUNDED_OUT="$bout" go test -count=1 -timeout 20m -run "^Test${prop}\$" . ) > "evidence/.bounded_$prop.log" 2>&1
  bounded_arg="-bounded $bout"
fi
# exit 0 = held, 1 = violation (a VIOLATION line was printed); 2 = the tool itself could not run (loading /repo through
# `go list` failed, ...): that says nothing about the property, so it is tried again before it is reported
for attempt in 1 2 3; do
  bin/govc -repo /repo -spec "$PWD/spec" check -prop "$prop" -tier "$tier" -evidence "$PWD/evidence/$prop.json" -replays "$PWD/replays" -known "$PWD/known_findings.json" $bounded_arg
  rc=$?
  [ $rc -le 1 ] && exit $rc
  echo "check.sh: govc exited $rc on attempt $attempt" >&2
  sleep 2
done
exit $rc
