; ---- C03: aggregate folds over the members of a group ----------------------------------------
; toF: ToFloat64(x) = strconv.ParseFloat(fmt %v of x) (assumed library functions); for a float64 member it is the member itself
(declare-fun spec!toFother (Any) F64)
(define-fun spec!toF ((x Any)) F64 (ite ((_ is a!float64) x) (v!float64 x) (spec!toFother x)))
; FoldSum: sum of the non-NULL members arr[off .. off+n), added left to right starting from 0 (the order the loop adds them)
(define-fun-rec spec!FoldSum ((arr (Array (_ BitVec 64) Any)) (off (_ BitVec 64)) (n (_ BitVec 64))) F64
  (ite (bvsle n #x0000000000000000) (_ +zero 11 53)
    (ite (= (select arr (bvadd off (bvsub n #x0000000000000001))) a!nil)
         (spec!FoldSum arr off (bvsub n #x0000000000000001))
         (fp.add RNE (spec!FoldSum arr off (bvsub n #x0000000000000001)) (spec!toF (select arr (bvadd off (bvsub n #x0000000000000001))))))))
; AllNil: every member of arr[off .. off+n) is NULL
(define-fun-rec spec!AllNil ((arr (Array (_ BitVec 64) Any)) (off (_ BitVec 64)) (n (_ BitVec 64))) Bool
  (ite (bvsle n #x0000000000000000) true
    (and (= (select arr (bvadd off (bvsub n #x0000000000000001))) a!nil) (spec!AllNil arr off (bvsub n #x0000000000000001)))))
; FoldMin / FoldMax: smallest / largest non-NULL member, starting from +/- MaxFloat64 as the loops do
(define-fun-rec spec!FoldMin ((arr (Array (_ BitVec 64) Any)) (off (_ BitVec 64)) (n (_ BitVec 64))) F64
  (ite (bvsle n #x0000000000000000) (fp #b0 #b11111111110 #xfffffffffffff)
    (ite (= (select arr (bvadd off (bvsub n #x0000000000000001))) a!nil)
         (spec!FoldMin arr off (bvsub n #x0000000000000001))
         (ite (fp.lt (spec!toF (select arr (bvadd off (bvsub n #x0000000000000001)))) (spec!FoldMin arr off (bvsub n #x0000000000000001)))
              (spec!toF (select arr (bvadd off (bvsub n #x0000000000000001))))
              (spec!FoldMin arr off (bvsub n #x0000000000000001))))))
(define-fun-rec spec!FoldMax ((arr (Array (_ BitVec 64) Any)) (off (_ BitVec 64)) (n (_ BitVec 64))) F64
  (ite (bvsle n #x0000000000000000) (fp #b1 #b11111111110 #xfffffffffffff)
    (ite (= (select arr (bvadd off (bvsub n #x0000000000000001))) a!nil)
         (spec!FoldMax arr off (bvsub n #x0000000000000001))
         (ite (fp.gt (spec!toF (select arr (bvadd off (bvsub n #x0000000000000001)))) (spec!FoldMax arr off (bvsub n #x0000000000000001)))
              (spec!toF (select arr (bvadd off (bvsub n #x0000000000000001))))
              (spec!FoldMax arr off (bvsub n #x0000000000000001))))))
