; ---- C15: the order compare.Compare must implement -------------------------------------
; numeric: the dynamic type is one of Go's twelve numeric types
(define-fun spec!numeric ((x Any)) Bool
  (or ((_ is a!int) x) ((_ is a!int8) x) ((_ is a!int16) x) ((_ is a!int32) x) ((_ is a!int64) x)
      ((_ is a!uint) x) ((_ is a!uint8) x) ((_ is a!uint16) x) ((_ is a!uint32) x) ((_ is a!uint64) x)
      ((_ is a!float32) x) ((_ is a!float64) x)))
; exact: "within the exactly-representable range" of the statement: integers of magnitude <= 2^53, floats that are not NaN
(define-fun spec!exact ((x Any)) Bool
  (ite ((_ is a!int) x)    (and (bvsle #xffe0000000000000 (v!int x)) (bvsle (v!int x) #x0020000000000000))
  (ite ((_ is a!int64) x)  (and (bvsle #xffe0000000000000 (v!int64 x)) (bvsle (v!int64 x) #x0020000000000000))
  (ite ((_ is a!uint) x)   (bvule (v!uint x) #x0020000000000000)
  (ite ((_ is a!uint64) x) (bvule (v!uint64 x) #x0020000000000000)
  (ite ((_ is a!float32) x) (not (fp.isNaN (v!float32 x)))
  (ite ((_ is a!float64) x) (not (fp.isNaN (v!float64 x)))
  true)))))))
; val: the mathematical value, embedded exactly into binary64 (exact under spec!exact)
(define-fun spec!val ((x Any)) F64
  (ite ((_ is a!int) x)    ((_ to_fp 11 53) RNE (v!int x))
  (ite ((_ is a!int8) x)   ((_ to_fp 11 53) RNE (v!int8 x))
  (ite ((_ is a!int16) x)  ((_ to_fp 11 53) RNE (v!int16 x))
  (ite ((_ is a!int32) x)  ((_ to_fp 11 53) RNE (v!int32 x))
  (ite ((_ is a!int64) x)  ((_ to_fp 11 53) RNE (v!int64 x))
  (ite ((_ is a!uint) x)   ((_ to_fp_unsigned 11 53) RNE (v!uint x))
  (ite ((_ is a!uint8) x)  ((_ to_fp_unsigned 11 53) RNE (v!uint8 x))
  (ite ((_ is a!uint16) x) ((_ to_fp_unsigned 11 53) RNE (v!uint16 x))
  (ite ((_ is a!uint32) x) ((_ to_fp_unsigned 11 53) RNE (v!uint32 x))
  (ite ((_ is a!uint64) x) ((_ to_fp_unsigned 11 53) RNE (v!uint64 x))
  (ite ((_ is a!float32) x) ((_ to_fp 11 53) RNE (v!float32 x))
  (ite ((_ is a!float64) x) (v!float64 x)
  (_ +zero 11 53))))))))))))))
; sgn3: -1, 0, 1 as a Go int
(define-fun spec!sgn3 ((x F64) (y F64)) (_ BitVec 64)
  (ite (fp.lt x y) #xffffffffffffffff (ite (fp.eq x y) #x0000000000000000 #x0000000000000001)))
; cmp3: strings.Compare as a Go int
(define-fun spec!cmp3 ((a Str) (b Str)) (_ BitVec 64)
  (ite (< (str!cmp a b) 0) #xffffffffffffffff (ite (= (str!cmp a b) 0) #x0000000000000000 #x0000000000000001)))
; FmtV: fmt.Sprintf("%v", x). Assumed library contract: a string prints as itself.
(declare-fun spec!fmtOther (Any) Str)
(define-fun spec!FmtV ((x Any)) Str (ite ((_ is a!string) x) (v!string x) (spec!fmtOther x)))
; CompareSpec: the order of the statement. Numbers by value, everything else by text.
(define-fun spec!CompareSpec ((a Any) (b Any)) (_ BitVec 64)
  (ite (and (spec!numeric a) (spec!numeric b)) (spec!sgn3 (spec!val a) (spec!val b))
       (spec!cmp3 (spec!FmtV a) (spec!FmtV b))))

; Cmp: the same order under an opaque name: Cmp(a, b) is, by definition, what compare.Compare returns on ordered values, i.e.
; CompareSpec(a, b) (clause compare.Compare.E.order proves result == CompareSpec(a, b); the definitional clause `abstract` names it).
; The evaluator's contracts (WHERE, ORDER BY, IN, BETWEEN) are stated over Cmp so that their obligations do not unfold the
; floating-point definition of CompareSpec.
(declare-fun spec!Cmp (Any Any) (_ BitVec 64))
