; Order on strings: strings.Compare / the < operator on Go strings is the byte-wise
; lexicographic order. Assumed (library contract): a total order with values -1, 0, 1.
(assert (forall ((a Str) (b Str)) (! (and (<= (- 1) (str!cmp a b)) (<= (str!cmp a b) 1)) :pattern ((str!cmp a b)))))
(assert (forall ((a Str) (b Str)) (! (= (= (str!cmp a b) 0) (= a b)) :pattern ((str!cmp a b)))))
(assert (forall ((a Str) (b Str)) (! (= (str!cmp a b) (- (str!cmp b a))) :pattern ((str!cmp a b)))))
(assert (forall ((a Str) (b Str) (c Str)) (! (=> (and (<= (str!cmp a b) 0) (<= (str!cmp b c) 0)) (<= (str!cmp a c) 0)) :pattern ((str!cmp a b) (str!cmp b c)))))
