; ---- C01 / C02: expression evaluation ---------------------------------------------------------
; PlainList: every element of arr[off .. off+n) is an ordered scalar (a literal list of one scalar kind, as the statement assumes)
(define-fun spec!plainElem ((v Any)) Bool (and (spec!ordered v) (not ((_ is a!map.string.any) v)) (not ((_ is a!ptr.float64) v))))
(define-fun spec!PlainList ((arr (Array (_ BitVec 64) Any)) (off (_ BitVec 64)) (n (_ BitVec 64))) Bool
  (forall ((k (_ BitVec 64))) (! (=> (and (bvsle #x0000000000000000 k) (bvslt k n)) (spec!plainElem (select arr (bvadd off k)))) :pattern ((select arr (bvadd off k))))))
; Member: x equals (in the sense of compare.Compare) some element of arr[off .. off+n)
(define-fun-rec spec!Member ((x Any) (arr (Array (_ BitVec 64) Any)) (off (_ BitVec 64)) (n (_ BitVec 64))) Bool
  (ite (bvsle n #x0000000000000000) false
       (or (= (spec!Cmp x (select arr (bvadd off (bvsub n #x0000000000000001)))) #x0000000000000000)
           (spec!Member x arr off (bvsub n #x0000000000000001)))))
; fmod: math.Mod (assumed library function)
(declare-fun spec!fmod (F64 F64) F64)
