; ---- C05: ORDER BY comparator ---------------------------------------------------------------
; Read: the value ExecReader returns for a path evaluated on a row (its meaning is C09's subject; here a function of row and path,
; which presumes rows are not written while they are sorted - C11's frame)
(declare-fun spec!Read (Any Str) Any)
; a value whose order compare.Compare pins down: text, or a number in the exactly-representable range
(define-fun spec!ordered ((x Any)) Bool (=> (spec!numeric x) (spec!exact x)))
; Less: rows[i] sorts strictly before rows[j] under the key list keys[koff .. koff+n): first key decides unless tied; NULL is last in
; both directions; Value == true means ASC
(define-fun-rec spec!Less ((rows (Array (_ BitVec 64) Any)) (roff (_ BitVec 64)) (i (_ BitVec 64)) (j (_ BitVec 64))
                           (keys (Array (_ BitVec 64) S!anon!struct!7bKey_string!3b_Value_bool!7d)) (koff (_ BitVec 64)) (n (_ BitVec 64))) Bool
  (ite (bvsle n #x0000000000000000) false
  (let ((f (spec!Read (select rows (bvadd roff i)) (anon!struct!7bKey_string!3b_Value_bool!7d!Key (select keys koff))))
        (s (spec!Read (select rows (bvadd roff j)) (anon!struct!7bKey_string!3b_Value_bool!7d!Key (select keys koff)))))
  (ite (= f a!nil) false
  (ite (= s a!nil) true
  (ite (= (spec!Cmp f s) #x0000000000000000)
       (spec!Less rows roff i j keys (bvadd koff #x0000000000000001) (bvsub n #x0000000000000001))
       (= (spec!Cmp f s) (ite (anon!struct!7bKey_string!3b_Value_bool!7d!Value (select keys koff)) #xffffffffffffffff #x0000000000000001))))))))
; LessOK: every pair of values the evaluation of Less compares is ordered (one scalar kind per key, as the statement assumes)
(define-fun-rec spec!LessOK ((rows (Array (_ BitVec 64) Any)) (roff (_ BitVec 64)) (i (_ BitVec 64)) (j (_ BitVec 64))
                           (keys (Array (_ BitVec 64) S!anon!struct!7bKey_string!3b_Value_bool!7d)) (koff (_ BitVec 64)) (n (_ BitVec 64))) Bool
  (ite (bvsle n #x0000000000000000) true
  (let ((f (spec!Read (select rows (bvadd roff i)) (anon!struct!7bKey_string!3b_Value_bool!7d!Key (select keys koff))))
        (s (spec!Read (select rows (bvadd roff j)) (anon!struct!7bKey_string!3b_Value_bool!7d!Key (select keys koff)))))
  (ite (or (= f a!nil) (= s a!nil)) true
  (and (spec!ordered f) (spec!ordered s)
       (=> (= (spec!Cmp f s) #x0000000000000000)
           (spec!LessOK rows roff i j keys (bvadd koff #x0000000000000001) (bvsub n #x0000000000000001))))))))
