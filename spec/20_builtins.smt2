; ---- C18 / C20: library functions the built-ins are specified against ---------------------
(declare-fun spec!ToLower (Str) Str)   ; strings.ToLower (assumed: the Unicode lower-case map)
(declare-fun spec!ToUpper (Str) Str)   ; strings.ToUpper
(declare-fun spec!BufCat (Str Str) Str) ; content of a bytes.Buffer after appending a string
(assert (forall ((s Str)) (! (= (spec!BufCat s str!empty) s) :pattern ((spec!BufCat s str!empty)))))
(assert (forall ((s Str)) (! (= (spec!BufCat str!empty s) s) :pattern ((spec!BufCat str!empty s)))))
; ConcatText: textual forms of the non-NULL elements arr[off .. off+n), in order
(define-fun-rec spec!ConcatText ((arr (Array (_ BitVec 64) Any)) (off (_ BitVec 64)) (n (_ BitVec 64))) Str
  (ite (bvsle n #x0000000000000000) str!empty
    (ite (= (select arr (bvadd off (bvsub n #x0000000000000001))) a!nil)
         (spec!ConcatText arr off (bvsub n #x0000000000000001))
         (spec!BufCat (spec!ConcatText arr off (bvsub n #x0000000000000001)) (spec!FmtV (select arr (bvadd off (bvsub n #x0000000000000001))))))))
; JSONValue: the values the properties quantify over (what encoding/json produces, plus Go's other numeric kinds)
(define-fun spec!JSONValue ((x Any)) Bool
  (or (= x a!nil) ((_ is a!bool) x) ((_ is a!string) x) ((_ is a!slice.any) x) ((_ is a!map.string.any) x) (spec!numeric x)))

; strconv.Atoi (assumed library contract: a function of its text; AtoiOK says the text is a decimal numeral in range)
(declare-fun spec!Atoi (Str) (_ BitVec 64))
(declare-fun spec!AtoiOK (Str) Bool)
