package bounded

import (
	"encoding/json"
	"fmt"
	"math"
	"sort"
	"strings"
	"testing"

	"github.com/vedadiyan/genql"
	"github.com/vedadiyan/genql/compare"
)

// Joins against the textbook definition: every pair satisfying ON, plus - for LEFT (RIGHT) - each left (right) row
// without a partner once with the other alias NULL; compared as multisets, for every join kind and strategy.

type c04Row = map[string]any

func c04Enc(v any) string { b, _ := json.Marshal(v); return string(b) }

func c04Tables(cols [2]string, dom []any, n int) [][]any {
	var rows []c04Row
	for _, a := range dom {
		for _, b := range dom {
			rows = append(rows, c04Row{cols[0]: a, cols[1]: b})
		}
	}
	out := [][]any{{}}
	var rec func(prefix []any, k int)
	rec = func(prefix []any, k int) {
		if k == 0 {
			return
		}
		for _, r := range rows {
			p := append(append([]any{}, prefix...), r)
			out = append(out, p)
			rec(p, k-1)
		}
	}
	rec(nil, n)
	return out
}

type c04Cond struct {
	sql string
	f   func(l, r c04Row) bool
}

// c04Cmp orders two values of one scalar kind.
func c04Cmp(a, b any) int {
	if _, isStr := a.(string); !isStr {
		if _, isF := a.(float64); !isF {
			return compare.Compare(a, b) // mixed Go numeric types: the library's own order (C15)
		}
		if _, isF := b.(float64); !isF {
			return compare.Compare(a, b)
		}
	}
	switch x := a.(type) {
	case float64:
		y := b.(float64)
		switch {
		case x < y:
			return -1
		case x > y:
			return 1
		}
		return 0
	default:
		return strings.Compare(a.(string), b.(string))
	}
}

func TestC04(t *testing.T) {
	conds := []c04Cond{
		{"x.a = y.m", func(l, r c04Row) bool { return c04Cmp(l["a"], r["m"]) == 0 }},
		{"y.m = x.a", func(l, r c04Row) bool { return c04Cmp(l["a"], r["m"]) == 0 }},
		{"x.a = y.m AND x.z = y.b", func(l, r c04Row) bool { return c04Cmp(l["a"], r["m"]) == 0 && c04Cmp(l["z"], r["b"]) == 0 }},
		{"x.z = y.b AND y.m = x.a", func(l, r c04Row) bool { return c04Cmp(l["a"], r["m"]) == 0 && c04Cmp(l["z"], r["b"]) == 0 }},
		{"x.a = y.m AND x.a = y.b", func(l, r c04Row) bool { return c04Cmp(l["a"], r["m"]) == 0 && c04Cmp(l["a"], r["b"]) == 0 }},
		{"x.a < y.m", func(l, r c04Row) bool { return c04Cmp(l["a"], r["m"]) < 0 }},
		{"x.a != y.m", func(l, r c04Row) bool { return c04Cmp(l["a"], r["m"]) != 0 }},
		{"x.a = y.m OR x.z = y.b", func(l, r c04Row) bool { return c04Cmp(l["a"], r["m"]) == 0 || c04Cmp(l["z"], r["b"]) == 0 }},
		{"x.a >= y.m AND x.z <= y.b", func(l, r c04Row) bool { return c04Cmp(l["a"], r["m"]) >= 0 && c04Cmp(l["z"], r["b"]) <= 0 }},
		{"x.a > y.m OR (x.z = y.b AND x.a = y.m)", func(l, r c04Row) bool {
			return c04Cmp(l["a"], r["m"]) > 0 || (c04Cmp(l["z"], r["b"]) == 0 && c04Cmp(l["a"], r["m"]) == 0)
		}},
	}
	kinds := []string{"JOIN", "LEFT JOIN", "RIGHT JOIN", "HASH_JOIN", "LEFT HASH_JOIN", "RIGHT HASH_JOIN", "STRAIGHT_JOIN",
		"PARALLEL JOIN", "PARALLEL LEFT JOIN", "PARALLEL RIGHT JOIN", "PARALLEL HASH_JOIN", "PARALLEL LEFT HASH_JOIN", "PARALLEL RIGHT HASH_JOIN", "PARALLEL STRAIGHT_JOIN"}
	doms := [][]any{{1.0, 2.0}, {"a-", "a", "b", "-b"}, {uint32(1), 1.0, int64(2), 2.0}, {math.Copysign(0, -1), 0.0, 1.0}}
	n := 2
	repeatParallel := 1
	if tier() == "thorough" {
		repeatParallel = 5
	}
	r := &result{Property: "C04", Name: "joins-equal-the-textbook-multiset",
		Bound: fmt.Sprintf("all pairs of tables of 0..%d rows, two columns each, over the number domain %v (every pair) and the string domain %v (every pair of tables with <= 1 row; the values are chosen so that two different key pairs print alike when simply run together) and a domain of mixed Go numeric types %v (tables with <= 1 row) and the two zeros %v (-0 = 0 holds; tables with <= 1 row); %d ON conditions (=, !=, <, >=, <=, AND, OR, either orientation, a column used twice, names that sort differently on the two sides); %d join kinds x strategies (PARALLEL ones run %d time(s)); result compared as a multiset with a nested-loop reference; aliases x/y, o/oi (one a prefix of the other) and a/aa (which read the same in either order when run together) alternate", n, doms[0], doms[1], doms[2], doms[3], len(conds), len(kinds), repeatParallel)}
	for di, dom := range doms {
		ls := c04Tables([2]string{"a", "z"}, dom, n)
		rs := c04Tables([2]string{"m", "b"}, dom, n)
		for _, kind := range kinds {
			outer := ""
			if strings.Contains(kind, "LEFT") {
				outer = "left"
			} else if strings.Contains(kind, "RIGHT") {
				outer = "right"
			}
			reps := 1
			if strings.HasPrefix(kind, "PARALLEL") {
				reps = repeatParallel
			}
			for _, c := range conds {
				for _, l := range ls {
					if di >= 1 && len(l) > 1 {
						continue
					}
					for _, rt := range rs {
						if di >= 1 && len(rt) > 1 {
							continue
						}
						var want []string
						matchedR := make([]bool, len(rt))
						for _, lr := range l {
							m := false
							for ri, rr := range rt {
								if c.f(lr.(c04Row), rr.(c04Row)) {
									m = true
									matchedR[ri] = true
									want = append(want, c04Enc(c04Row{"x": lr, "y": rr}))
								}
							}
							if !m && outer == "left" {
								want = append(want, c04Enc(c04Row{"x": lr, "y": nil}))
							}
						}
						if outer == "right" {
							for ri, rr := range rt {
								if !matchedR[ri] {
									want = append(want, c04Enc(c04Row{"x": nil, "y": rr}))
								}
							}
						}
						sort.Strings(want)
						// aliases: x / y, and a pair where one alias is a prefix of the other (the row keys follow the aliases)
						la, ra := "x", "y"
						switch (len(l) + 2*len(rt)) % 3 {
						case 1:
							la, ra = "o", "oi"
						case 2:
							la, ra = "a", "aa" // la+ra == ra+la
						}
						if la != "x" {
							for i := range want {
								want[i] = strings.ReplaceAll(strings.ReplaceAll(want[i], `"x":`, `"`+la+`":`), `"y":`, `"`+ra+`":`)
							}
							sort.Strings(want)
						}
						cond := strings.ReplaceAll(strings.ReplaceAll(c.sql, "x.", la+"."), "y.", ra+".")
						q := fmt.Sprintf("SELECT * FROM l %s %s r %s ON %s", la, kind, ra, cond)
						for rep := 0; rep < reps; rep++ {
							r.Cases++
							var got []string
							var gerr error
							func() {
								defer func() {
									if p := recover(); p != nil {
										gerr = fmt.Errorf("panic: %v", p)
									}
								}()
								qq, err := genql.New(c04Row{"l": l, "r": rt}, q)
								if err != nil {
									gerr = err
									return
								}
								res, err := qq.Exec()
								if err != nil {
									gerr = err
									return
								}
								for _, x := range res {
									got = append(got, c04Enc(x))
								}
							}()
							sort.Strings(got)
							class := "inner"
							if outer != "" {
								class = "outer"
							}
							if strings.Contains(kind, "HASH") {
								class += "-hash-requested"
							}
							switch {
							case gerr != nil:
								r.violateClass(class+"-error", "%s with l=%s r=%s: %v", q, c04Enc(l), c04Enc(rt), gerr)
							case strings.Join(got, "|") != strings.Join(want, "|"):
								r.violateClass(class+"-wrong-multiset", "%s with l=%s r=%s: got %v want %v", q, c04Enc(l), c04Enc(rt), got, want)
							}
						}
					}
				}
			}
		}
	}
	report(t, r)
}
