package bounded

// Bounded stand-ins: exhaustive runs of the REAL functions up to a stated bound, for the parts of a property that no
// contract within reach can decide (regular-expression engine, third-party SQL parser, gob/base64 codecs). They are
// labelled bounded in the evidence and never counted as proved.

import (
	"encoding/json"
	"fmt"
	"os"
	"sync"
	"testing"
)

type result struct {
	Property   string   `json:"property"`
	Name       string   `json:"name"`
	Bound      string   `json:"bound"`
	Cases      int      `json:"cases"`
	Violations int      `json:"violations"`
	Witnesses  []string `json:"witnesses,omitempty"`
	Classes    map[string]int `json:"violation_classes,omitempty"` // violations by class; a class may be a recorded finding
	Known      []string `json:"known,omitempty"`
}

var (
	resMu   sync.Mutex
	results []*result
)

func tier() string {
	if t := os.Getenv("VERIF_TIER"); t != "" {
		return t
	}
	return "quick"
}

func report(t *testing.T, r *result) {
	resMu.Lock()
	results = append(results, r)
	resMu.Unlock()
	if r.Violations > 0 {
		t.Logf("%s/%s: %d violations, first: %v", r.Property, r.Name, r.Violations, r.Witnesses)
	}
}

// violateClass records a violation that belongs to a named class (used for recorded findings).
func (r *result) violateClass(class, format string, a ...any) {
	if r.Classes == nil {
		r.Classes = map[string]int{}
	}
	r.Classes[class]++
	r.Violations++
	if len(r.Witnesses) < 5 {
		r.Witnesses = append(r.Witnesses, "["+class+"] "+fmt.Sprintf(format, a...))
	}
}

func (r *result) violate(format string, a ...any) {
	if r.Classes == nil {
		r.Classes = map[string]int{}
	}
	r.Classes["unclassified"]++
	r.Violations++
	if len(r.Witnesses) < 5 {
		r.Witnesses = append(r.Witnesses, fmt.Sprintf(format, a...))
	}
}

func TestMain(m *testing.M) {
	code := m.Run()
	if out := os.Getenv("VERIF_BOUNDED_OUT"); out != "" {
		b, _ := json.MarshalIndent(results, "", " ")
		os.WriteFile(out, b, 0o644)
	}
	os.Exit(code)
}

// strs enumerates every string over alphabet with length <= n.
func strs(alphabet []string, n int) []string {
	out := []string{""}
	prev := []string{""}
	for i := 0; i < n; i++ {
		var next []string
		for _, p := range prev {
			for _, a := range alphabet {
				next = append(next, p+a)
			}
		}
		out = append(out, next...)
		prev = next
	}
	return out
}
