package bounded

import (
	"strings"
	"fmt"
	"reflect"
	"testing"

	"github.com/vedadiyan/genql"
	sanitize "github.com/vedadiyan/genql/sanitizer"
	"github.com/vedadiyan/sqlparser/v2"
)

// C16 (bounded): for every string argument over an alphabet of quotes, backslashes, comment introducers, NUL, a multi-byte
// rune and SQL text, the sanitized query parses with the library's own parser to the template's shape with ONE string
// literal in the placeholder's position, and SELECT $1 AS v FROM dual echoes the argument.
func TestC16(t *testing.T) {
	alphabet := []string{"a", "'", "\\", "-", "/", "*", "$1", "\x00", "é", " ", "\"", ";", "1"}
	n := 3
	if tier() == "thorough" {
		n = 4
	}
	args := strs(alphabet, n)
	args = append(args, "' OR 1=1 -- ", "\\' OR 1=1 -- ", "x'; DROP TABLE t; --", "\\", "\\\\'", "''", "a\\'b", "/* */ $1", "-- $1\n", "%27", "\\x27")
	// a string argument is a byte string: bytes that are not valid UTF-8 reach the literal unchanged
	args = append(args, "caf\xe9", "\xff", "\xff'\\", "truncated \xe4\xb8", "'\xc3", "\xc3'", "\x80\\\x80")
	r := &result{Property: "C16", Name: "sanitized-argument-is-one-literal-and-echoes", Bound: fmt.Sprintf("all strings of length <= %d over %q plus %d hand-picked injection strings and byte strings that are not valid UTF-8; templates: WHERE a = $1, SELECT $1 AS v FROM dual, and four templates in which the placeholder is glued to a comment, a literal or a quoted identifier that contains another $1", n, alphabet, 18)}
	doc := map[string]any{"t": []any{map[string]any{"a": "x", "n": 1.0}, map[string]any{"a": "y", "n": 2.0}}}
	for _, arg := range args {
		r.Cases++
		// (1) shape: one comparison with a literal on the right, nothing else
		sql, err := sanitize.SanitizeSQL("SELECT n FROM t WHERE a = $1", arg)
		if err != nil {
			r.violate("arg %q: sanitizer error %v", arg, err)
			continue
		}
		stmt, err := sqlparser.Parse(sql)
		if err != nil {
			r.violate("arg %q: sanitized text %q does not parse: %v", arg, sql, err)
			continue
		}
		sel, ok := stmt.(*sqlparser.Select)
		if !ok || sel.Where == nil {
			r.violate("arg %q: statement shape changed: %T", arg, stmt)
			continue
		}
		cmp, ok := sel.Where.Expr.(*sqlparser.ComparisonExpr)
		if !ok {
			r.violate("arg %q: WHERE is no longer one comparison: %T in %q", arg, sel.Where.Expr, sql)
			continue
		}
		lit, ok := cmp.Right.(*sqlparser.Literal)
		if !ok || lit.Type != sqlparser.StrVal {
			r.violate("arg %q: right operand is not one string literal: %T in %q", arg, cmp.Right, sql)
			continue
		}
		if lit.Val != arg {
			r.violate("arg %q: literal reads back as %q (sanitized %q)", arg, lit.Val, sql)
			continue
		}
		if sel.Limit != nil || sel.OrderBy != nil || sel.GroupBy != nil || sel.Having != nil || len(sel.SelectExprs.Exprs) != 1 {
			r.violate("arg %q: clauses added in %q", arg, sql)
			continue
		}
		// (2) echo
		sql2, err := sanitize.SanitizeSQL("SELECT $1 AS v FROM dual", arg)
		if err != nil {
			r.violate("arg %q: sanitizer error %v", arg, err)
			continue
		}
		q, err := genql.New(doc, sql2)
		if err != nil {
			r.violate("arg %q: echo query %q rejected: %v", arg, sql2, err)
			continue
		}
		rs, err := q.Exec()
		if err != nil || len(rs) != 1 {
			r.violate("arg %q: echo query failed: %v %v", arg, rs, err)
			continue
		}
		row, _ := rs[0].(map[string]any)
		if !reflect.DeepEqual(row["v"], arg) {
			r.violate("arg %q: echo returned %#v", arg, row["v"])
		}
		// (3) a placeholder directly followed by something that opens a comment, a literal or a quoted identifier:
		// what follows is still lexed as such (the placeholder inside it is left alone) and the argument is echoed
		for _, tmpl := range []string{"SELECT $1/* $1 */ AS v FROM dual", "SELECT $1-- $1\n AS v FROM dual", "SELECT $1`v` FROM dual", "SELECT $1'$1' AS v FROM dual"} {
			r.Cases++
			sql3, err := sanitize.SanitizeSQL(tmpl, arg)
			if err != nil {
				r.violateClass("glued-placeholder", "arg %q template %q: sanitizer error %v", arg, tmpl, err)
				continue
			}
			want := strings.Replace(tmpl, "$1", sanitize.QuoteString(arg), 1)
			if sql3 != want {
				r.violateClass("glued-placeholder", "arg %q template %q: got %q, want %q (only the first $1 is a placeholder)", arg, tmpl, sql3, want)
			}
		}
	}
	// other argument kinds echo as well
	for _, c := range []struct {
		arg  any
		want any
	}{{int64(42), 42.0}, {int64(-7), -7.0}, {1.5, 1.5}, {true, true}, {false, false}, {nil, nil}} {
		r.Cases++
		sql, err := sanitize.SanitizeSQL("SELECT $1 AS v FROM dual", c.arg)
		if err != nil {
			r.violate("arg %#v: %v", c.arg, err)
			continue
		}
		q, err := genql.New(doc, sql)
		if err != nil {
			r.violate("arg %#v: %q rejected: %v", c.arg, sql, err)
			continue
		}
		rs, err := q.Exec()
		if err != nil || len(rs) != 1 {
			r.violate("arg %#v: exec %v %v", c.arg, rs, err)
			continue
		}
		if row, _ := rs[0].(map[string]any); !reflect.DeepEqual(row["v"], c.want) {
			r.violate("arg %#v: echo returned %#v", c.arg, row["v"])
		}
	}
	// placeholders inside literals, quoted identifiers and comments are left alone; $0, missing and unused arguments are errors
	for _, c := range []struct {
		tmpl  string
		args  []any
		isErr bool
	}{
		{"SELECT '$1' AS v FROM dual", nil, false},
		{"SELECT 1 AS `$1` FROM dual", nil, false},
		{"SELECT 1 AS v FROM dual -- $1", nil, false},
		{"SELECT 1 AS v /* $1 */ FROM dual", nil, false},
		// a block comment is over at the first */ whatever stands before it, and a * or / inside it is only itself
		{"SELECT 1 AS v /** $1 **/ FROM dual", nil, false},
		{"SELECT 1 AS v /***/ FROM dual", nil, false},
		{"SELECT 1 AS v /* 2*3 / 4 $1 */ FROM dual", nil, false},
		{"SELECT $1 AS v /** was $9 **/ , $2 AS w FROM dual", []any{"a"}, true},
		{"SELECT $0 AS v FROM dual", []any{"x"}, true},
		{"SELECT $2 AS v FROM dual", []any{"x"}, true},
		{"SELECT $1 AS v FROM dual", []any{"x", "y"}, true},
		{"SELECT $1 AS v FROM dual", nil, true},
		// a placeholder that occurs twice does not make up for an argument that is never used
		{"SELECT $1 AS v, $1 AS w FROM dual", []any{"a", "b"}, true},
		{"SELECT $1 AS v, $3 AS w FROM dual WHERE $1 = $3", []any{"a", "b", "c", "d"}, true},
		{"SELECT $2 AS v, $2 AS w, $2 AS x FROM dual", []any{"a", "b"}, true},
	} {
		r.Cases++
		func() {
			defer func() {
				if p := recover(); p != nil {
					r.violate("template %q args %v: panic %v", c.tmpl, c.args, p)
				}
			}()
			out, err := sanitize.SanitizeSQL(c.tmpl, c.args...)
			if c.isErr && err == nil {
				r.violate("template %q args %v: no error, got %q", c.tmpl, c.args, out)
			}
			if !c.isErr && (err != nil || out != c.tmpl) {
				r.violate("template %q: changed to %q (%v)", c.tmpl, out, err)
			}
		}()
	}
	// a placeholder after a comment that ends in **/ is still a placeholder
	r.Cases++
	if out, err := sanitize.SanitizeSQL("SELECT $1 AS v /** was $9 **/ , $2 AS w FROM dual", "a", int64(7)); err != nil || out != "SELECT 'a' AS v /** was $9 **/ , 7 AS w FROM dual" {
		r.violate("placeholder after a comment ending in **/: got %q (%v)", out, err)
	}
	report(t, r)
}
