package bounded

import (
	"encoding/json"
	"fmt"
	"testing"

	"github.com/vedadiyan/genql"
)

// C03 (bounded): the partition laws of GROUP BY - every row that passed WHERE lands in exactly one group, two rows share a
// group iff they agree on every grouping column, members keep source order, groups appear in order of first appearance,
// COUNT/SUM refer to the group's members - for every table of up to 4 rows over the values {NULL, 1, 2, "1"} x 1..2 grouping columns.
func TestC03(t *testing.T) {
	vals := []any{nil, 1.0, 2.0, "1"}
	maxRows := 3
	if tier() == "thorough" {
		maxRows = 4
	}
	r := &result{Property: "C03", Name: "group-by-partitions", Bound: fmt.Sprintf("all tables of 0..%d rows with two columns over {NULL, 1, 2, \"1\"}, grouped by g and by (g, h), with and without WHERE id > 1", maxRows)}
	key := func(v any) string { b, _ := json.Marshal(v); return fmt.Sprintf("%T:%s", v, b) }
	var tables [][]map[string]any
	var gen func(prefix []map[string]any, n int)
	gen = func(prefix []map[string]any, n int) {
		tables = append(tables, append([]map[string]any{}, prefix...))
		if n == 0 {
			return
		}
		for _, g := range vals {
			for _, h := range vals[:2] {
				row := map[string]any{"id": float64(len(prefix) + 1), "g": g, "h": h}
				gen(append(prefix, row), n-1)
			}
		}
	}
	gen(nil, maxRows)
	for _, tbl := range tables {
		for _, cols := range [][]string{{"g"}, {"g", "h"}} {
			for _, where := range []string{"", " WHERE id > 1"} {
				r.Cases++
				rows := make([]any, len(tbl))
				for i, x := range tbl {
					rows[i] = x
				}
				doc := map[string]any{"t": rows}
				groupBy := "g"
				if len(cols) == 2 {
					groupBy = "g, h"
				}
				q, err := genql.New(doc, "SELECT *, COUNT(id) AS c, SUM(id) AS s FROM t"+where+" GROUP BY "+groupBy)
				if err != nil {
					r.violate("New: %v", err)
					continue
				}
				rs, err := q.Exec()
				if err != nil {
					r.violate("Exec on %v: %v", tbl, err)
					continue
				}
				// reference partition
				var order []string
				members := map[string][]float64{}
				for _, x := range tbl {
					if where != "" && x["id"].(float64) <= 1 {
						continue
					}
					k := ""
					for _, c := range cols {
						k += key(x[c]) + "|"
					}
					if _, seen := members[k]; !seen {
						order = append(order, k)
					}
					members[k] = append(members[k], x["id"].(float64))
				}
				if len(rs) != len(order) {
					r.violate("table %v by %v%s: %d groups, reference %d", tbl, cols, where, len(rs), len(order))
					continue
				}
				for gi, out := range rs {
					g := out.(map[string]any)
					k := ""
					for _, c := range cols {
						k += key(g[c]) + "|"
					}
					if k != order[gi] {
						r.violate("table %v by %v%s: group %d has key %s, first-appearance order wants %s", tbl, cols, where, gi, k, order[gi])
						break
					}
					mem, _ := g["*"].([]any)
					want := members[k]
					okm := len(mem) == len(want)
					sum := 0.0
					for i := 0; okm && i < len(mem); i++ {
						id := mem[i].(map[string]any)["id"].(float64)
						okm = id == want[i]
						sum += id
					}
					if !okm {
						r.violate("table %v by %v%s: group %s has members %v, reference %v", tbl, cols, where, k, mem, want)
						break
					}
					if fmt.Sprint(g["c"]) != fmt.Sprint(len(want)) || (len(want) > 0 && fmt.Sprint(g["s"]) != fmt.Sprint(sum)) {
						r.violate("table %v by %v%s: group %s COUNT=%v SUM=%v, reference %d / %v", tbl, cols, where, k, g["c"], g["s"], len(want), sum)
						break
					}
				}
			}
		}
	}
	report(t, r)
	testC03Having(t)
	testC03MixedKeys(t)
}

// HAVING sees the finished group row: a condition on a grouping column, alone or with an aggregate, keeps exactly the
// groups whose key satisfies it.
func testC03Having(t *testing.T) {
	r := &result{Property: "C03", Name: "having-sees-the-grouping-columns", Bound: "5 tables x 6 HAVING conditions on the grouping column (=, <>, IS NULL, IS NOT NULL, with an aggregate, inside a function call)"}
	tables := [][]any{
		{},
		{map[string]any{"g": "n", "v": 1.0}},
		{map[string]any{"g": "n", "v": 1.0}, map[string]any{"g": "s", "v": 2.0}, map[string]any{"g": "n", "v": 3.0}},
		{map[string]any{"g": nil, "v": 1.0}, map[string]any{"g": "s", "v": 2.0}, map[string]any{"g": nil, "v": 3.0}, map[string]any{"g": "e", "v": 5.0}},
		{map[string]any{"g": "s", "v": 1.0}, map[string]any{"g": "s", "v": 2.0}, map[string]any{"g": "e", "v": 9.0}, map[string]any{"v": 4.0}},
	}
	conds := []struct {
		sql  string
		keep func(g any, sum float64) bool
	}{
		{"g = 's'", func(g any, _ float64) bool { return g == "s" }},
		{"g <> 's'", func(g any, _ float64) bool { return g != "s" }},
		{"g IS NULL", func(g any, _ float64) bool { return g == nil }},
		{"g IS NOT NULL", func(g any, _ float64) bool { return g != nil }},
		{"g <> 'n' AND SUM(v) > 2", func(g any, sum float64) bool { return g != "n" && sum > 2 }},
		{"CONCAT(g, '!') = 's!'", func(g any, _ float64) bool { return g == "s" }},
	}
	for ti, tbl := range tables {
		for _, c := range conds {
			r.Cases++
			q, err := genql.New(map[string]any{"t": tbl}, "SELECT g, SUM(v) AS s FROM t GROUP BY g HAVING "+c.sql)
			if err != nil {
				r.violate("New(%s): %v", c.sql, err)
				continue
			}
			rs, err := q.Exec()
			if err != nil {
				r.violate("table %d HAVING %s: %v", ti, c.sql, err)
				continue
			}
			var order []any
			sums := map[any]float64{}
			for _, x := range tbl {
				g := x.(map[string]any)["g"]
				if _, seen := sums[g]; !seen {
					order = append(order, g)
				}
				sums[g] += x.(map[string]any)["v"].(float64)
			}
			var want []string
			for _, g := range order {
				if c.keep(g, sums[g]) {
					want = append(want, fmt.Sprintf("%v=%v", g, sums[g]))
				}
			}
			var got []string
			for _, o := range rs {
				m := o.(map[string]any)
				got = append(got, fmt.Sprintf("%v=%v", m["g"], m["s"]))
			}
			if fmt.Sprint(got) != fmt.Sprint(want) {
				r.violate("table %d HAVING %s: groups %v, reference %v", ti, c.sql, got, want)
			}
		}
	}
	report(t, r)
}

// Grouping keys of mixed Go numeric types (a document need not come from JSON): every row lands in exactly one group, rows
// whose keys are the same value of the same type share a group, and the partition is the same on every run.
func testC03MixedKeys(t *testing.T) {
	mixedKeysPartition(t, "C03")
}

func mixedKeysPartition(t *testing.T, prop string) {
	big := int64(1) << 53
	vals := []any{big + 1, big, float64(big), int64(1), 1.0, float32(0.5), 0.5, uint8(1)}
	r := &result{Property: prop, Name: "mixed-numeric-keys-partition-the-same-way-on-every-run", Bound: fmt.Sprintf("all ordered triples over %d numeric key values of six Go types (2^53 boundary included), 12 runs each", len(vals))}
	for _, a := range vals {
		for _, b := range vals {
			for _, c := range vals {
				r.Cases++
				keys := []any{a, b, c}
				first := ""
				for run := 0; run < 12; run++ {
					rows := make([]any, len(keys))
					for i, k := range keys {
						rows[i] = map[string]any{"id": float64(i), "k": k}
					}
					q, err := genql.New(map[string]any{"t": rows}, "SELECT k, COUNT(id) AS n FROM t GROUP BY k")
					if err != nil {
						r.violate("New: %v", err)
						break
					}
					rs, err := q.Exec()
					if err != nil {
						r.violate("keys %#v: %v", keys, err)
						break
					}
					total := 0.0
					shape := ""
					for _, o := range rs {
						g := o.(map[string]any)
						n := 0.0
						fmt.Sscan(fmt.Sprint(g["n"]), &n)
						total += n
						shape += fmt.Sprintf("%#v:%v ", g["k"], g["n"])
					}
					if int(total) != len(keys) {
						r.violate("keys %#v: the group counts add up to %v, not %d (%s)", keys, total, len(keys), shape)
						break
					}
					// identical keys (same type, same value) share a group: no two groups carry the same key
					seen := map[any]bool{}
					dup := false
					for _, o := range rs {
						k := o.(map[string]any)["k"]
						if seen[k] {
							dup = true
						}
						seen[k] = true
					}
					if dup {
						r.violate("keys %#v: two groups carry one key (%s)", keys, shape)
						break
					}
					if run == 0 {
						first = shape
					} else if shape != first {
						r.violate("keys %#v: run %d groups as %s, the first run as %s", keys, run, shape, first)
						break
					}
				}
			}
		}
	}
	report(t, r)
}
