package bounded

import (
	"encoding/json"
	"fmt"
	"testing"

	"github.com/vedadiyan/genql"
)

// C03 (bounded): the partition laws of GROUP BY - every row that passed WHERE lands in exactly one group, two rows share a
// group iff they agree on every grouping column, members keep source order, groups appear in order of first appearance,
// COUNT/SUM refer to the group's members - for every table of up to 4 rows over the values {NULL, 1, 2, "1"} x 1..2 grouping columns.
func TestC03(t *testing.T) {
	vals := []any{nil, 1.0, 2.0, "1"}
	maxRows := 3
	if tier() == "thorough" {
		maxRows = 4
	}
	r := &result{Property: "C03", Name: "group-by-partitions", Bound: fmt.Sprintf("all tables of 0..%d rows with two columns over {NULL, 1, 2, \"1\"}, grouped by g and by (g, h), with and without WHERE id > 1", maxRows)}
	key := func(v any) string { b, _ := json.Marshal(v); return fmt.Sprintf("%T:%s", v, b) }
	var tables [][]map[string]any
	var gen func(prefix []map[string]any, n int)
	gen = func(prefix []map[string]any, n int) {
		tables = append(tables, append([]map[string]any{}, prefix...))
		if n == 0 {
			return
		}
		for _, g := range vals {
			for _, h := range vals[:2] {
				row := map[string]any{"id": float64(len(prefix) + 1), "g": g, "h": h}
				gen(append(prefix, row), n-1)
			}
		}
	}
	gen(nil, maxRows)
	for _, tbl := range tables {
		for _, cols := range [][]string{{"g"}, {"g", "h"}} {
			for _, where := range []string{"", " WHERE id > 1"} {
				r.Cases++
				rows := make([]any, len(tbl))
				for i, x := range tbl {
					rows[i] = x
				}
				doc := map[string]any{"t": rows}
				groupBy := "g"
				if len(cols) == 2 {
					groupBy = "g, h"
				}
				q, err := genql.New(doc, "SELECT *, COUNT(id) AS c, SUM(id) AS s FROM t"+where+" GROUP BY "+groupBy)
				if err != nil {
					r.violate("New: %v", err)
					continue
				}
				rs, err := q.Exec()
				if err != nil {
					r.violate("Exec on %v: %v", tbl, err)
					continue
				}
				// reference partition
				var order []string
				members := map[string][]float64{}
				for _, x := range tbl {
					if where != "" && x["id"].(float64) <= 1 {
						continue
					}
					k := ""
					for _, c := range cols {
						k += key(x[c]) + "|"
					}
					if _, seen := members[k]; !seen {
						order = append(order, k)
					}
					members[k] = append(members[k], x["id"].(float64))
				}
				if len(rs) != len(order) {
					r.violate("table %v by %v%s: %d groups, reference %d", tbl, cols, where, len(rs), len(order))
					continue
				}
				for gi, out := range rs {
					g := out.(map[string]any)
					k := ""
					for _, c := range cols {
						k += key(g[c]) + "|"
					}
					if k != order[gi] {
						r.violate("table %v by %v%s: group %d has key %s, first-appearance order wants %s", tbl, cols, where, gi, k, order[gi])
						break
					}
					mem, _ := g["*"].([]any)
					want := members[k]
					okm := len(mem) == len(want)
					sum := 0.0
					for i := 0; okm && i < len(mem); i++ {
						id := mem[i].(map[string]any)["id"].(float64)
						okm = id == want[i]
						sum += id
					}
					if !okm {
						r.violate("table %v by %v%s: group %s has members %v, reference %v", tbl, cols, where, k, mem, want)
						break
					}
					if fmt.Sprint(g["c"]) != fmt.Sprint(len(want)) || (len(want) > 0 && fmt.Sprint(g["s"]) != fmt.Sprint(sum)) {
						r.violate("table %v by %v%s: group %s COUNT=%v SUM=%v, reference %d / %v", tbl, cols, where, k, g["c"], g["s"], len(want), sum)
						break
					}
				}
			}
		}
	}
	report(t, r)
	testC03Having(t)
	testC03AggregatesOnly(t)
	testC03PathColumns(t)
	testC03NamedNumbers(t)
	testC03MixedKeys(t)
}

// HAVING sees the finished group row: a condition on a grouping column, alone or with an aggregate, keeps exactly the
// groups whose key satisfies it.
// A select list of aggregates only, under GROUP BY, still yields one row per group (in first-appearance order).
func testC03AggregatesOnly(t *testing.T) {
	r := &result{Property: "C03", Name: "aggregates-only-select-list-under-group-by", Bound: "all tables of 0..4 rows over g in {x, y, NULL} and v in {1, 2}; SELECT COUNT(*), SUM(v) ... GROUP BY g, with and without HAVING"}
	gs := []any{"x", "y", nil}
	var tables [][]any
	var gen func(prefix []any, k int)
	gen = func(prefix []any, k int) {
		tables = append(tables, append([]any{}, prefix...))
		if k == 0 {
			return
		}
		for _, g := range gs {
			for _, v := range []float64{1, 2} {
				gen(append(prefix, map[string]any{"g": g, "v": v}), k-1)
			}
		}
	}
	gen(nil, 4)
	for _, tbl := range tables {
		for _, having := range []string{"", " HAVING SUM(v) > 2"} {
			r.Cases++
			q, err := genql.New(map[string]any{"t": tbl}, "SELECT COUNT(*) AS c, SUM(v) AS s FROM t GROUP BY g"+having)
			if err != nil {
				r.violate("New: %v", err)
				continue
			}
			rs, err := q.Exec()
			if err != nil {
				r.violate("table %v%s: %v", tbl, having, err)
				continue
			}
			var order []any
			cnt := map[any]int{}
			sum := map[any]float64{}
			for _, x := range tbl {
				g := x.(map[string]any)["g"]
				if _, seen := cnt[g]; !seen {
					order = append(order, g)
				}
				cnt[g]++
				sum[g] += x.(map[string]any)["v"].(float64)
			}
			var want []string
			for _, g := range order {
				if having == "" || sum[g] > 2 {
					want = append(want, fmt.Sprintf("%d/%v", cnt[g], sum[g]))
				}
			}
			var got []string
			for _, o := range rs {
				if m, ok := o.(map[string]any); ok {
					got = append(got, fmt.Sprintf("%v/%v", m["c"], m["s"]))
				} else {
					got = append(got, fmt.Sprintf("%v", o))
				}
			}
			if fmt.Sprint(got) != fmt.Sprint(want) {
				r.violate("table %v%s: rows (count/sum) %v, reference %v", tbl, having, got, want)
			}
		}
	}
	report(t, r)
}

// Grouping columns written as paths: a table alias (a.g), a nested key (o.k), two paths that share a step, a path next to
// a plain column. The key columns of every group read back in the select list and in HAVING.
func testC03PathColumns(t *testing.T) {
	r := &result{Property: "C03", Name: "grouping-columns-written-as-paths", Bound: "all tables of 0..3 rows over g in {x, y}, o.k in {p, q, missing}, o.m.z in {1, 2}; 7 queries (alias-qualified key, nested key, two nested keys, two paths whose first steps are o and ok, nested and plain key, HAVING on a nested key)"}
	type row = map[string]any
	var shapes []row
	for _, g := range []any{"x", "y"} {
		for _, k := range []any{"p", "q", nil} {
			for _, z := range []any{1.0, 2.0} {
				o := row{"m": row{"z": z}}
				if k != nil {
					o["k"] = k
				}
				shapes = append(shapes, row{"g": g, "o": o, "ok": row{"z": z}, "v": 1.0})
			}
		}
	}
	var tables [][]any
	var gen func(prefix []any, k int)
	gen = func(prefix []any, k int) {
		tables = append(tables, append([]any{}, prefix...))
		if k == 0 {
			return
		}
		for _, sh := range shapes {
			gen(append(prefix, sh), k-1)
		}
	}
	gen(nil, 2)
	if tier() == "thorough" {
		tables = nil
		gen(nil, 3)
	}
	get := func(x any, path ...string) any {
		for _, p := range path {
			m, ok := x.(row)
			if !ok {
				return nil
			}
			x = m[p]
		}
		return x
	}
	type q struct {
		sql  string
		keys [][]string
		keep func(ks []any) bool
	}
	qs := []q{
		{"SELECT a.g AS k0, COUNT(*) AS c FROM t a GROUP BY a.g", [][]string{{"g"}}, nil},
		{"SELECT `o.k` AS k0, COUNT(*) AS c FROM t GROUP BY `o.k`", [][]string{{"o", "k"}}, nil},
		{"SELECT `o.k` AS k0, `o.m.z` AS k1, COUNT(*) AS c FROM t GROUP BY `o.k`, `o.m.z`", [][]string{{"o", "k"}, {"o", "m", "z"}}, nil},
		{"SELECT `o.m.z` AS k0, g AS k1, COUNT(*) AS c FROM t GROUP BY `o.m.z`, g", [][]string{{"o", "m", "z"}, {"g"}}, nil},
		{"SELECT `o.k` AS k0, `ok.z` AS k1, COUNT(*) AS c FROM t GROUP BY `o.k`, `ok.z`", [][]string{{"o", "k"}, {"ok", "z"}}, nil},
		{"SELECT `o.k` AS k0, COUNT(*) AS c FROM t GROUP BY `o.k` HAVING `o.k` = 'p'", [][]string{{"o", "k"}}, func(ks []any) bool { return ks[0] == "p" }},
		{"SELECT `o.m.z` AS k0, COUNT(*) AS c FROM t GROUP BY `o.m.z` HAVING `o.m.z` > 1 AND COUNT(*) > 0", [][]string{{"o", "m", "z"}}, func(ks []any) bool { return ks[0] == 2.0 }},
	}
	for _, tbl := range tables {
		for _, qq := range qs {
			r.Cases++
			query, err := genql.New(map[string]any{"t": tbl}, qq.sql)
			if err != nil {
				r.violate("New(%s): %v", qq.sql, err)
				continue
			}
			rs, err := query.Exec()
			if err != nil {
				r.violate("%s on %v: %v", qq.sql, tbl, err)
				continue
			}
			var order []string
			counts := map[string]int{}
			keep := map[string]bool{}
			for _, x := range tbl {
				var ks []any
				for _, path := range qq.keys {
					ks = append(ks, get(x, path...))
				}
				id := fmt.Sprintf("%#v", ks)
				if _, seen := counts[id]; !seen {
					order = append(order, id)
					keep[id] = qq.keep == nil || qq.keep(ks)
				}
				counts[id]++
			}
			var want []string
			for _, id := range order {
				if keep[id] {
					want = append(want, fmt.Sprintf("%s x%d", id, counts[id]))
				}
			}
			var got []string
			for _, o := range rs {
				m, _ := o.(map[string]any)
				var ks []any
				for i := range qq.keys {
					ks = append(ks, m[fmt.Sprintf("k%d", i)])
				}
				got = append(got, fmt.Sprintf("%#v x%v", ks, m["c"]))
			}
			if fmt.Sprint(got) != fmt.Sprint(want) {
				r.violate("%s on %v: groups %v, reference %v", qq.sql, tbl, got, want)
			}
		}
	}
	report(t, r)
}

type c03Cents int64

// Aggregates over members that are numbers of a named type (json.Number from a decoder with UseNumber, a named integer
// type): they are read through their printed form, like every other number.
func testC03NamedNumbers(t *testing.T) {
	r := &result{Property: "C03", Name: "aggregates-over-named-number-types", Bound: "all tables of 1..3 rows over v in {json.Number 2.5, json.Number 4, c03Cents 150, 1.5}, two groups; SUM, MIN, MAX, AVG per group and over the whole table"}
	vals := []any{json.Number("2.5"), json.Number("4"), c03Cents(150), 1.5}
	num := func(v any) float64 {
		f := 0.0
		fmt.Sscan(fmt.Sprint(v), &f)
		return f
	}
	var tables [][]any
	var gen func(prefix []any, k int)
	gen = func(prefix []any, k int) {
		if len(prefix) > 0 {
			tables = append(tables, append([]any{}, prefix...))
		}
		if k == 0 {
			return
		}
		for _, v := range vals {
			for _, g := range []string{"x", "y"} {
				gen(append(prefix, map[string]any{"g": g, "v": v}), k-1)
			}
		}
	}
	gen(nil, 3)
	for _, tbl := range tables {
		for _, grouped := range []bool{true, false} {
			r.Cases++
			sql := "SELECT SUM(v) AS s, MIN(v) AS mn, MAX(v) AS mx, AVG(v) AS av FROM t"
			if grouped {
				sql = "SELECT g, SUM(v) AS s, MIN(v) AS mn, MAX(v) AS mx, AVG(v) AS av FROM t GROUP BY g"
			}
			q, err := genql.New(map[string]any{"t": tbl}, sql)
			if err != nil {
				r.violate("New: %v", err)
				continue
			}
			rs, err := q.Exec()
			if err != nil {
				r.violate("%s on %v: %v", sql, tbl, err)
				continue
			}
			var order []string
			members := map[string][]float64{}
			for _, x := range tbl {
				g := ""
				if grouped {
					g = x.(map[string]any)["g"].(string)
				}
				if _, seen := members[g]; !seen {
					order = append(order, g)
				}
				members[g] = append(members[g], num(x.(map[string]any)["v"]))
			}
			var want []string
			for _, g := range order {
				sum, mn, mx := 0.0, members[g][0], members[g][0]
				for _, f := range members[g] {
					sum += f
					if f < mn {
						mn = f
					}
					if f > mx {
						mx = f
					}
				}
				want = append(want, fmt.Sprintf("%v %v %v %v", sum, mn, mx, sum/float64(len(members[g]))))
			}
			var got []string
			for _, o := range rs {
				m, _ := o.(map[string]any)
				got = append(got, fmt.Sprintf("%v %v %v %v", m["s"], m["mn"], m["mx"], m["av"]))
			}
			if fmt.Sprint(got) != fmt.Sprint(want) {
				r.violate("%s on %v: (sum min max avg) %v, reference %v", sql, tbl, got, want)
			}
		}
	}
	report(t, r)
}

func testC03Having(t *testing.T) {
	r := &result{Property: "C03", Name: "having-sees-the-grouping-columns", Bound: "5 tables x 6 HAVING conditions on the grouping column (=, <>, IS NULL, IS NOT NULL, with an aggregate, inside a function call)"}
	tables := [][]any{
		{},
		{map[string]any{"g": "n", "v": 1.0}},
		{map[string]any{"g": "n", "v": 1.0}, map[string]any{"g": "s", "v": 2.0}, map[string]any{"g": "n", "v": 3.0}},
		{map[string]any{"g": nil, "v": 1.0}, map[string]any{"g": "s", "v": 2.0}, map[string]any{"g": nil, "v": 3.0}, map[string]any{"g": "e", "v": 5.0}},
		{map[string]any{"g": "s", "v": 1.0}, map[string]any{"g": "s", "v": 2.0}, map[string]any{"g": "e", "v": 9.0}, map[string]any{"v": 4.0}},
	}
	conds := []struct {
		sql  string
		keep func(g any, sum float64) bool
	}{
		{"g = 's'", func(g any, _ float64) bool { return g == "s" }},
		{"g <> 's'", func(g any, _ float64) bool { return g != "s" }},
		{"g IS NULL", func(g any, _ float64) bool { return g == nil }},
		{"g IS NOT NULL", func(g any, _ float64) bool { return g != nil }},
		{"g <> 'n' AND SUM(v) > 2", func(g any, sum float64) bool { return g != "n" && sum > 2 }},
		{"CONCAT(g, '!') = 's!'", func(g any, _ float64) bool { return g == "s" }},
	}
	for ti, tbl := range tables {
		for _, c := range conds {
			r.Cases++
			q, err := genql.New(map[string]any{"t": tbl}, "SELECT g, SUM(v) AS s FROM t GROUP BY g HAVING "+c.sql)
			if err != nil {
				r.violate("New(%s): %v", c.sql, err)
				continue
			}
			rs, err := q.Exec()
			if err != nil {
				r.violate("table %d HAVING %s: %v", ti, c.sql, err)
				continue
			}
			var order []any
			sums := map[any]float64{}
			for _, x := range tbl {
				g := x.(map[string]any)["g"]
				if _, seen := sums[g]; !seen {
					order = append(order, g)
				}
				sums[g] += x.(map[string]any)["v"].(float64)
			}
			var want []string
			for _, g := range order {
				if c.keep(g, sums[g]) {
					want = append(want, fmt.Sprintf("%v=%v", g, sums[g]))
				}
			}
			var got []string
			for _, o := range rs {
				m := o.(map[string]any)
				got = append(got, fmt.Sprintf("%v=%v", m["g"], m["s"]))
			}
			if fmt.Sprint(got) != fmt.Sprint(want) {
				r.violate("table %d HAVING %s: groups %v, reference %v", ti, c.sql, got, want)
			}
		}
	}
	report(t, r)
}

// Grouping keys of mixed Go numeric types (a document need not come from JSON): every row lands in exactly one group, rows
// whose keys are the same value of the same type share a group, and the partition is the same on every run.
func testC03MixedKeys(t *testing.T) {
	mixedKeysPartition(t, "C03")
}

func mixedKeysPartition(t *testing.T, prop string) {
	big := int64(1) << 53
	vals := []any{big + 1, big, float64(big), int64(1), 1.0, float32(0.5), 0.5, uint8(1)}
	r := &result{Property: prop, Name: "mixed-numeric-keys-partition-the-same-way-on-every-run", Bound: fmt.Sprintf("all ordered triples over %d numeric key values of six Go types (2^53 boundary included), 12 runs each", len(vals))}
	for _, a := range vals {
		for _, b := range vals {
			for _, c := range vals {
				r.Cases++
				keys := []any{a, b, c}
				first := ""
				for run := 0; run < 12; run++ {
					rows := make([]any, len(keys))
					for i, k := range keys {
						rows[i] = map[string]any{"id": float64(i), "k": k}
					}
					q, err := genql.New(map[string]any{"t": rows}, "SELECT k, COUNT(id) AS n FROM t GROUP BY k")
					if err != nil {
						r.violate("New: %v", err)
						break
					}
					rs, err := q.Exec()
					if err != nil {
						r.violate("keys %#v: %v", keys, err)
						break
					}
					total := 0.0
					shape := ""
					for _, o := range rs {
						g := o.(map[string]any)
						n := 0.0
						fmt.Sscan(fmt.Sprint(g["n"]), &n)
						total += n
						shape += fmt.Sprintf("%#v:%v ", g["k"], g["n"])
					}
					if int(total) != len(keys) {
						r.violate("keys %#v: the group counts add up to %v, not %d (%s)", keys, total, len(keys), shape)
						break
					}
					// identical keys (same type, same value) share a group: no two groups carry the same key
					seen := map[any]bool{}
					dup := false
					for _, o := range rs {
						k := o.(map[string]any)["k"]
						if seen[k] {
							dup = true
						}
						seen[k] = true
					}
					if dup {
						r.violate("keys %#v: two groups carry one key (%s)", keys, shape)
						break
					}
					if run == 0 {
						first = shape
					} else if shape != first {
						r.violate("keys %#v: run %d groups as %s, the first run as %s", keys, run, shape, first)
						break
					}
				}
			}
		}
	}
	report(t, r)
}
