package bounded

import (
	"encoding/json"
	"fmt"
	"testing"

	"github.com/vedadiyan/genql"
)

// C03 (bounded): the partition laws of GROUP BY - every row that passed WHERE lands in exactly one group, two rows share a
// group iff they agree on every grouping column, members keep source order, groups appear in order of first appearance,
// COUNT/SUM refer to the group's members - for every table of up to 4 rows over the values {NULL, 1, 2, "1"} x 1..2 grouping columns.
func TestC03(t *testing.T) {
	vals := []any{nil, 1.0, 2.0, "1"}
	maxRows := 3
	if tier() == "thorough" {
		maxRows = 4
	}
	r := &result{Property: "C03", Name: "group-by-partitions", Bound: fmt.Sprintf("all tables of 0..%d rows with two columns over {NULL, 1, 2, \"1\"}, grouped by g and by (g, h), with and without WHERE id > 1", maxRows)}
	key := func(v any) string { b, _ := json.Marshal(v); return fmt.Sprintf("%T:%s", v, b) }
	var tables [][]map[string]any
	var gen func(prefix []map[string]any, n int)
	gen = func(prefix []map[string]any, n int) {
		tables = append(tables, append([]map[string]any{}, prefix...))
		if n == 0 {
			return
		}
		for _, g := range vals {
			for _, h := range vals[:2] {
				row := map[string]any{"id": float64(len(prefix) + 1), "g": g, "h": h}
				gen(append(prefix, row), n-1)
			}
		}
	}
	gen(nil, maxRows)
	for _, tbl := range tables {
		for _, cols := range [][]string{{"g"}, {"g", "h"}} {
			for _, where := range []string{"", " WHERE id > 1"} {
				r.Cases++
				rows := make([]any, len(tbl))
				for i, x := range tbl {
					rows[i] = x
				}
				doc := map[string]any{"t": rows}
				groupBy := "g"
				if len(cols) == 2 {
					groupBy = "g, h"
				}
				q, err := genql.New(doc, "SELECT *, COUNT(id) AS c, SUM(id) AS s FROM t"+where+" GROUP BY "+groupBy)
				if err != nil {
					r.violate("New: %v", err)
					continue
				}
				rs, err := q.Exec()
				if err != nil {
					r.violate("Exec on %v: %v", tbl, err)
					continue
				}
				// reference partition
				var order []string
				members := map[string][]float64{}
				for _, x := range tbl {
					if where != "" && x["id"].(float64) <= 1 {
						continue
					}
					k := ""
					for _, c := range cols {
						k += key(x[c]) + "|"
					}
					if _, seen := members[k]; !seen {
						order = append(order, k)
					}
					members[k] = append(members[k], x["id"].(float64))
				}
				if len(rs) != len(order) {
					r.violate("table %v by %v%s: %d groups, reference %d", tbl, cols, where, len(rs), len(order))
					continue
				}
				for gi, out := range rs {
					g := out.(map[string]any)
					k := ""
					for _, c := range cols {
						k += key(g[c]) + "|"
					}
					if k != order[gi] {
						r.violate("table %v by %v%s: group %d has key %s, first-appearance order wants %s", tbl, cols, where, gi, k, order[gi])
						break
					}
					mem, _ := g["*"].([]any)
					want := members[k]
					okm := len(mem) == len(want)
					sum := 0.0
					for i := 0; okm && i < len(mem); i++ {
						id := mem[i].(map[string]any)["id"].(float64)
						okm = id == want[i]
						sum += id
					}
					if !okm {
						r.violate("table %v by %v%s: group %s has members %v, reference %v", tbl, cols, where, k, mem, want)
						break
					}
					if fmt.Sprint(g["c"]) != fmt.Sprint(len(want)) || (len(want) > 0 && fmt.Sprint(g["s"]) != fmt.Sprint(sum)) {
						r.violate("table %v by %v%s: group %s COUNT=%v SUM=%v, reference %d / %v", tbl, cols, where, k, g["c"], g["s"], len(want), sum)
						break
					}
				}
			}
		}
	}
	report(t, r)
}
