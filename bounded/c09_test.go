package bounded

import (
	"encoding/json"
	"fmt"
	"reflect"
	"strconv"
	"strings"
	"testing"

	"github.com/vedadiyan/genql"
)

// Reference evaluator for path selectors, over a selector AST (the selectors handed to ExecReader are the rendered
// text of that AST, so tokenisation and parsing are exercised against an evaluator that never sees the text).

type c09Dim struct {
	kind   string // "index", "each", "range"
	i, b, e int    // range bounds: -1 = begin / end keyword
}

type c09Pipe struct{ key, typ string }

type c09Step struct {
	kind   string // "key", "dims", "pipe"
	key    string
	quoted bool
	keep   bool
	dims   []c09Dim
	pipes  []c09Pipe
}

type c09Segment struct {
	fn    string
	steps []c09Step
}

func (s c09Step) render(first bool) string {
	switch s.kind {
	case "key":
		k := s.key
		if s.quoted {
			k = "'" + k + "'"
		}
		if first {
			return k
		}
		return "." + k
	case "dims":
		var ps []string
		for _, d := range s.dims {
			switch d.kind {
			case "index":
				ps = append(ps, strconv.Itoa(d.i))
			case "each":
				ps = append(ps, "each")
			case "range":
				b, e := strconv.Itoa(d.b), strconv.Itoa(d.e)
				if d.b < 0 {
					b = "begin"
				}
				if d.e < 0 {
					e = "end"
				}
				ps = append(ps, "("+b+":"+e+")")
			}
		}
		k := ""
		if s.keep {
			k = "keep=>"
		}
		return "[" + k + strings.Join(ps, ":") + "]"
	default:
		var ps []string
		for _, p := range s.pipes {
			if p.typ == "" {
				ps = append(ps, p.key)
			} else {
				ps = append(ps, p.key+"|"+p.typ)
			}
		}
		return "{" + strings.Join(ps, ", ") + "}"
	}
}

func renderSegments(segs []c09Segment) string {
	var out []string
	for _, sg := range segs {
		var b strings.Builder
		if sg.fn != "" {
			b.WriteString(sg.fn + "=>")
		}
		for i, s := range sg.steps {
			b.WriteString(s.render(i == 0))
		}
		out = append(out, b.String())
	}
	return strings.Join(out, "::")
}

var errRef = fmt.Errorf("reference: error")

func refDims(data any, dims []c09Dim) (any, error) {
	if len(dims) == 0 {
		return data, nil
	}
	arr, ok := data.([]any)
	if !ok {
		return nil, errRef
	}
	d := dims[0]
	switch d.kind {
	case "range":
		b, e := d.b, d.e
		if b < 0 {
			b = 0
		}
		if e < 0 {
			e = len(arr)
		}
		if e > len(arr) || b > e {
			return nil, errRef
		}
		return refDims(arr[b:e], dims[1:])
	case "each":
		out := make([]any, 0)
		for _, it := range arr {
			r, err := refDims(it, dims[1:])
			if err != nil {
				return nil, err
			}
			out = append(out, r)
		}
		return out, nil
	default:
		if d.i >= len(arr) {
			return nil, errRef
		}
		return refDims(arr[d.i], dims[1:])
	}
}

func refFlatten(data []any, depth int) []any {
	if depth == 0 {
		return data
	}
	out := make([]any, 0)
	for _, it := range data {
		if a, ok := it.([]any); ok {
			out = append(out, refFlatten(a, depth-1)...)
		} else {
			out = append(out, it)
		}
	}
	return out
}

func refSteps(data any, steps []c09Step) (any, error) {
	if len(steps) == 0 {
		return data, nil
	}
	if data == nil {
		return nil, nil
	}
	s := steps[0]
	arr, isArr := data.([]any)
	obj, isObj := data.(map[string]any)
	switch s.kind {
	case "key", "pipe":
		if isArr {
			out := make([]any, len(arr))
			for i, it := range arr {
				r, err := refSteps(it, steps)
				if err != nil {
					return nil, err
				}
				out[i] = r
			}
			return out, nil
		}
		if !isObj {
			return nil, errRef
		}
		if s.kind == "key" {
			return refSteps(obj[s.key], steps[1:])
		}
		cp := map[string]any{}
		for _, p := range s.pipes {
			key := strings.Trim(p.key, "'") // a quoted key is the text between the quotes
			v := obj[key]
			switch p.typ {
			case "":
				cp[key] = v
			case "string":
				switch x := v.(type) {
				case float64:
					if x == float64(int64(x)) {
						cp[key] = strconv.FormatInt(int64(x), 10)
					} else {
						cp[key] = fmt.Sprintf("%f", x)
					}
				default:
					cp[key] = fmt.Sprintf("%v", v)
				}
			case "number":
				str, ok := v.(string)
				if !ok {
					return nil, errRef
				}
				n, err := strconv.ParseFloat(str, 64)
				if err != nil {
					return nil, errRef
				}
				cp[key] = n
			default:
				return nil, errRef
			}
		}
		return refSteps(cp, steps[1:])
	default:
		if !isArr {
			return nil, errRef
		}
		r, err := refDims(arr, s.dims)
		if err != nil {
			return nil, err
		}
		if a, ok := r.([]any); ok && !s.keep {
			r = refFlatten(a, len(s.dims)-1)
		}
		return refSteps(r, steps[1:])
	}
}

func refMixArray(a []any) []any {
	out := make([]any, 0)
	for _, it := range a {
		if x, ok := it.([]any); ok {
			out = append(out, refMixArray(x)...)
		} else {
			out = append(out, it)
		}
	}
	return out
}

func refMixObject(m map[string]any) map[string]any {
	out := map[string]any{}
	for k, v := range m {
		if inner, ok := v.(map[string]any); ok {
			for ik, iv := range refMixObject(inner) {
				out[k+"_"+ik] = iv
			}
			continue
		}
		out[k] = v
	}
	return out
}

func refSegments(data any, segs []c09Segment) (any, error) {
	cur := data
	for _, sg := range segs {
		r, err := refSteps(cur, sg.steps)
		if err != nil {
			return nil, err
		}
		switch sg.fn {
		case "":
		case "mix":
			switch x := r.(type) {
			case []any:
				r = refMixArray(x)
			case map[string]any:
				r = refMixObject(x)
			default:
				return nil, errRef
			}
		case "distinct":
			a, ok := r.([]any)
			if !ok {
				return nil, errRef
			}
			seen := map[string]bool{}
			out := make([]any, 0)
			for _, it := range a {
				k := fmt.Sprintf("%v", it)
				if !seen[k] {
					seen[k] = true
					out = append(out, it)
				}
			}
			r = out
		default:
			return nil, errRef
		}
		cur = r
	}
	return cur, nil
}

func c09Docs() []string {
	return []string{
		`{"a":{"b":{"x":1,"y":"7"},"x":"2.5"},"b":[[1,2],[3,4,5],[]],"x":[{"x":1,"y":"a","b":[1,2]},{"x":2,"b":[3]},null,{"y":"c","x":1}],"a.b":"lit","n":null,"s":"str","[0]":"bracket","{x}":{"x":9},"p::q":{"x":5,"a.b":-0.5}}`,
		`{"a":[{"b":[{"x":1},{"x":2}]},{"b":[{"x":3}]},{"b":[]}],"b":[[[1],[2,3]],[[4]]],"x":{"x":{"x":[1,2,3]}},"s":4}`,
		`{"a":[1,[2,3],[[4]]],"b":[{"y":"1"},{"y":"zz"},{"y":2},{"y":-2.5,"a.b":7}],"x":[],"a.b":{"x":[true,false]}}`,
	}
}

func c09Vocabulary() []c09Step {
	k := func(s string) c09Step { return c09Step{kind: "key", key: s} }
	idx := func(i int) c09Dim { return c09Dim{kind: "index", i: i} }
	each := c09Dim{kind: "each"}
	rng := func(b, e int) c09Dim { return c09Dim{kind: "range", b: b, e: e} }
	d := func(keep bool, ds ...c09Dim) c09Step { return c09Step{kind: "dims", keep: keep, dims: ds} }
	p := func(ps ...c09Pipe) c09Step { return c09Step{kind: "pipe", pipes: ps} }
	return []c09Step{
		k("a"), k("b"), k("x"), k("y"), k("zz"), {kind: "key", key: "a.b", quoted: true}, {kind: "key", key: "b", quoted: true}, {kind: "key", key: "[0]", quoted: true}, {kind: "key", key: "{x}", quoted: true},
		d(false, idx(0)), d(false, idx(1)), d(false, idx(7)), d(false, each), d(false, each, idx(0)), d(false, each, each), d(false, idx(0), each),
		d(true, each), d(true, each, each), d(true, each, idx(0)), d(true, idx(1)),
		d(false, rng(0, 1)), d(false, rng(-1, -1)), d(false, rng(1, 9)), d(false, rng(2, 1)), d(false, rng(-1, 2), each), d(true, rng(1, -1), each), d(false, each, rng(0, 1)),
		p(c09Pipe{"x", ""}), p(c09Pipe{"x", "string"}, c09Pipe{"y", ""}), p(c09Pipe{"y", "number"}), p(c09Pipe{"zz", ""}, c09Pipe{"x", "number"}),
		p(c09Pipe{"'a.b'", ""}), p(c09Pipe{"x", ""}, c09Pipe{"'a.b'", ""}), p(c09Pipe{"'a.b'", "string"}, c09Pipe{"y", "string"}), {kind: "key", key: "p::q", quoted: true},
	}
}

func TestC09(t *testing.T) {
	vocab := c09Vocabulary()
	maxSteps := 3
	if tier() == "thorough" {
		maxSteps = 4
	}
	docs := c09Docs()
	r := &result{Property: "C09", Name: "selector-vs-reference-evaluator",
		Bound: fmt.Sprintf("every selector of 1..%d steps over a %d-step vocabulary (keys, quoted keys, index/each/range dimensions with and without keep=>, pipes), with each of {none, mix=>, distinct=>, an unregistered function} in front, and every two-segment `::` continuation of 1..2 + 1 steps; %d documents with ragged and nested arrays, nulls and scalars; compared with a reference evaluator over the selector AST; plus no panic and the document deep-equal afterwards", maxSteps, len(vocab), len(docs))}
	var parsed []any
	var before []string
	for _, d := range docs {
		var v any
		json.Unmarshal([]byte(d), &v)
		parsed = append(parsed, v)
		b, _ := json.Marshal(v)
		before = append(before, string(b))
	}
	okCases := 0
	check := func(segs []c09Segment) {
		sel := renderSegments(segs)
		for di, doc := range parsed {
			r.Cases++
			want, werr := refSegments(doc, segs)
			if werr == nil {
				okCases++
			}
			var got any
			var gerr error
			func() {
				defer func() {
					if p := recover(); p != nil {
						r.violateClass("panic", "%q on doc %d: panic %v", sel, di, p)
						gerr = fmt.Errorf("panic")
					}
				}()
				got, gerr = genql.ExecReader(doc, sel)
			}()
			switch {
			case (werr != nil) != (gerr != nil):
				r.violateClass("error-mismatch", "%q on doc %d: reference error=%v, ExecReader error=%v (value %v)", sel, di, werr, gerr, got)
			case werr == nil && !reflect.DeepEqual(want, got):
				r.violateClass("value-mismatch", "%q on doc %d: got %v want %v", sel, di, got, want)
			}
		}
	}
	var rec func(prefix []c09Step)
	rec = func(prefix []c09Step) {
		if len(prefix) > 0 {
			for _, fn := range []string{"", "mix", "distinct", "nosuchfunction"} {
				check([]c09Segment{{fn: fn, steps: prefix}})
			}
			if len(prefix) <= 2 {
				for _, s := range vocab {
					check([]c09Segment{{steps: prefix}, {steps: []c09Step{s}}})
				}
			}
		}
		if len(prefix) == maxSteps {
			return
		}
		for _, s := range vocab {
			if len(prefix) == 0 && s.kind != "key" {
				continue // a selector starts at a key of the document
			}
			rec(append(append([]c09Step{}, prefix...), s))
		}
	}
	rec(nil)
	for di, doc := range parsed {
		b, _ := json.Marshal(doc)
		if string(b) != before[di] {
			r.violateClass("document-changed", "document %d changed by selector evaluation", di)
		}
	}
	r.Bound += fmt.Sprintf(" (%d of the cases evaluate to a value, the rest to an error)", okCases)
	report(t, r)

	// arbitrary text as a selector: an error or a value, never a panic, and the document is left alone
	alphabet := []string{"a", "0", ".", "[", "]", "(", ")", ":", "{", "}", "|", "'", "=>", "::", "each", "keep=>", "-", " ", "\x00", "\xff", "begin", "end", "mix"}
	n := 3
	if tier() == "thorough" {
		n = 4
	}
	r2 := &result{Property: "C09", Name: "arbitrary-text-never-panics", Bound: fmt.Sprintf("every concatenation of at most %d tokens from a %d-token alphabet of selector punctuation, keywords and stray bytes, on %d documents", n, len(alphabet), len(docs))}
	for _, sel := range strs(alphabet, n) {
		for di, doc := range parsed {
			r2.Cases++
			func() {
				defer func() {
					if p := recover(); p != nil {
						r2.violateClass("panic", "%q on doc %d: panic %v", sel, di, p)
					}
				}()
				genql.ExecReader(doc, sel)
			}()
		}
	}
	for di, doc := range parsed {
		b, _ := json.Marshal(doc)
		if string(b) != before[di] {
			r2.violateClass("document-changed", "document %d changed by selector evaluation", di)
		}
	}
	report(t, r2)
}
