package bounded

import (
	"encoding/json"
	"fmt"
	"regexp"
	"strings"
	"testing"

	"github.com/vedadiyan/genql"
)

// refLike: LIKE where only % and _ are wildcards, case-insensitive.
func refLike(subject, pattern string) bool {
	s, p := []rune(strings.ToLower(subject)), []rune(strings.ToLower(pattern))
	var m func(i, j int) bool
	m = func(i, j int) bool {
		if j == len(p) {
			return i == len(s)
		}
		switch p[j] {
		case '%':
			for k := i; k <= len(s); k++ {
				if m(k, j+1) {
					return true
				}
			}
			return false
		case '_':
			return i < len(s) && m(i+1, j+1)
		default:
			return i < len(s) && s[i] == p[j] && m(i+1, j+1)
		}
	}
	return m(0, 0)
}

func ids(doc map[string]any, where string) (string, error) {
	q, err := genql.New(doc, "SELECT id FROM t WHERE "+where)
	if err != nil {
		return "", err
	}
	rs, err := q.Exec()
	if err != nil {
		return "", err
	}
	var out []string
	for _, r := range rs {
		out = append(out, fmt.Sprint(r.(map[string]any)["id"]))
	}
	return strings.Join(out, ","), nil
}

func TestC01(t *testing.T) {
	// (1) LIKE against the reference matcher: the regular-expression engine has no contract within reach
	alphabet := []string{"a", "A", "b", "%", "_", "(", ".", "*", "\\\\", "\n", "+"}
	n := 3
	if tier() == "thorough" {
		n = 4
	}
	r1 := &result{Property: "C01", Name: "like-equals-reference", Bound: fmt.Sprintf("all patterns of length <= %d over %q x subjects {\"\", a, ab, aXb, A.b, a(b, a\\nb, a*b, a+, abab}", n, alphabet)}
	subjects := []string{"", "a", "ab", "aXb", "A.b", "a(b", "a\nb", "a*b", "a+", "abab"}
	for _, pat := range strs(alphabet, n) {
		for _, sub := range subjects {
			r1.Cases++
			want := refLike(sub, strings.ReplaceAll(pat, "\\\\", "\\"))
			got, err := genql.RegexComparison(sub, strings.ReplaceAll(pat, "\\\\", "\\"))
			if err != nil {
				r1.violate("%q LIKE %q: error %v", sub, pat, err)
				continue
			}
			if got != want {
				r1.violate("%q LIKE %q = %v, reference %v", sub, pat, got, want)
			}
		}
	}
	_ = regexp.QuoteMeta
	report(t, r1)

	// (2) consequences the statement names, over a small table and a predicate grammar, through New + Exec:
	//     NOT IN is the complement of IN; BETWEEN agrees with >= AND <=; p and NOT p partition the rows; kept rows keep source order
	var doc map[string]any
	json.Unmarshal([]byte(`{"t":[{"id":1,"a":1,"s":"b"},{"id":2,"a":3,"s":"a"},{"id":3,"a":2,"s":"B"},{"id":4,"a":10,"s":"ab"},{"id":5,"a":3,"s":"a"},{"id":6,"a":-1,"s":"c"}]}`), &doc)
	all := "1,2,3,4,5,6"
	r2 := &result{Property: "C01", Name: "complement-between-partition", Bound: "6-row table with an integer and a string column; 13 IN lists (4 of them subqueries, one without rows, one over a missing table), 16 BETWEEN bounds, 40 predicates from the operator grammar to depth 2"}
	split := func(s string) map[string]bool {
		m := map[string]bool{}
		for _, x := range strings.Split(s, ",") {
			if x != "" {
				m[x] = true
			}
		}
		return m
	}
	// lists that come from a subquery over the same table (`<-t`): some rows, one row, no row at all
	for _, list := range []string{"(1)", "(1, 3)", "(3, 3)", "(2, 10, -1)", "(7)", "('a')", "('a', 'b')", "('B', 'zz')", "(1, 2, 3, 10, -1)",
		"(SELECT a FROM `<-t` WHERE a > 1)", "(SELECT a FROM `<-t` WHERE a = 3)", "(SELECT a FROM `<-t` WHERE a > 1000)", "(SELECT a FROM `<-missing`)"} {
		col := "a"
		if strings.Contains(list, "'") {
			col = "s"
		}
		r2.Cases++
		in, e1 := ids(doc, col+" IN "+list)
		notin, e2 := ids(doc, col+" NOT IN "+list)
		if e1 != nil || e2 != nil {
			r2.violate("%s [NOT] IN %s: %v %v", col, list, e1, e2)
			continue
		}
		a, b := split(in), split(notin)
		for _, id := range strings.Split(all, ",") {
			if a[id] == b[id] {
				r2.violate("%s IN %s = [%s] but NOT IN = [%s]: row %s is in both or neither", col, list, in, notin, id)
				break
			}
		}
	}
	for _, lo := range []string{"-1", "1", "2", "3"} {
		for _, hi := range []string{"2", "3", "9", "10"} {
			r2.Cases++
			bt, e1 := ids(doc, fmt.Sprintf("a BETWEEN %s AND %s", lo, hi))
			ge, e2 := ids(doc, fmt.Sprintf("a >= %s AND a <= %s", lo, hi))
			if e1 != nil || e2 != nil || bt != ge {
				r2.violate("a BETWEEN %s AND %s = [%s] (%v) but a >= %s AND a <= %s = [%s] (%v)", lo, hi, bt, e1, lo, hi, ge, e2)
			}
		}
	}
	atoms := []string{"a = 3", "a != 3", "a < 3", "a <= 2", "a > 2", "a >= 10", "s = 'a'", "s < 'b'", "s LIKE 'a%'", "s LIKE '_'", "a IN (1, 3)", "a BETWEEN 2 AND 3", "s IS NOT NULL"}
	var preds []string
	preds = append(preds, atoms...)
	for i, x := range atoms {
		y := atoms[(i*5+3)%len(atoms)]
		preds = append(preds, "("+x+") AND ("+y+")", "("+x+") OR ("+y+")")
	}
	for _, p := range preds {
		r2.Cases++
		yes, e1 := ids(doc, p)
		no, e2 := ids(doc, "NOT ("+p+")")
		if e1 != nil || e2 != nil {
			r2.violate("%s: %v %v", p, e1, e2)
			continue
		}
		a, b := split(yes), split(no)
		for _, id := range strings.Split(all, ",") {
			if a[id] == b[id] {
				r2.violate("[%s] and NOT [%s] do not partition: [%s] / [%s]", p, p, yes, no)
				break
			}
		}
		// source order, each row once
		last := 0
		for _, x := range strings.Split(yes, ",") {
			if x == "" {
				continue
			}
			var v int
			fmt.Sscan(x, &v)
			if v <= last {
				r2.violate("%s: rows out of source order or duplicated: [%s]", p, yes)
				break
			}
			last = v
		}
	}
	report(t, r2)
	// the same predicates read the same rows when the query is written in the double-quoted style under
	// PostgresEscapingDialect, also when a string constant holds an escaped quote followed by double quotes
	r3 := &result{Property: "C01", Name: "predicates-under-the-quoting-dialect", Bound: "8 predicates with string constants holding \\', '' and double quotes, each in the double-quoted style under PostgresEscapingDialect against the backtick style without it"}
	pdoc := map[string]any{"p": []any{
		map[string]any{"id": 1.0, "name": "it's \"ok\"", "age": 30.0},
		map[string]any{"id": 2.0, "name": "it's " + "`" + "ok" + "`", "age": 50.0},
		map[string]any{"id": 3.0, "name": "it's", "age": 40.0},
		map[string]any{"id": 4.0, "name": "other", "age": 20.0},
	}}
	for _, pred := range []string{
		`%[1]sname%[1]s = 'it\'s "ok"'`, `%[1]sname%[1]s != 'it\'s "ok"'`, `%[1]sname%[1]s IN ('other', 'it\'s "ok"')`, `%[1]sname%[1]s LIKE 'it\'s "o_"'`,
		`%[1]sname%[1]s = 'it\'s' OR %[1]sage%[1]s > 35`, `%[1]sname%[1]s != 'it\'s' AND %[1]sage%[1]s BETWEEN 20 AND 40`, `%[1]sname%[1]s = 'it''s' OR %[1]sage%[1]s > 45`, `NOT %[1]sname%[1]s = 'it\'s "ok"'`,
	} {
		r3.Cases++
		run := func(q string, opts ...genql.QueryOption) (string, error) {
			qq, err := genql.New(pdoc, q, opts...)
			if err != nil {
				return "", err
			}
			rs, err := qq.Exec()
			if err != nil {
				return "", err
			}
			return fmt.Sprint(rs), nil
		}
		a, e1 := run(fmt.Sprintf("SELECT id FROM %[1]sp%[1]s WHERE "+pred, `"`), genql.PostgresEscapingDialect())
		b, e2 := run(fmt.Sprintf("SELECT id FROM %[1]sp%[1]s WHERE "+pred, "`"))
		if (e1 == nil) != (e2 == nil) || a != b {
			r3.violate("WHERE "+pred+": double-quoted under the option %s (%v), backtick style %s (%v)", `"`, a, e1, b, e2)
		}
	}
	report(t, r3)
}
