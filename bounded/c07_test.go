package bounded

import (
	"encoding/json"
	"fmt"
	"strings"
	"testing"

	"github.com/vedadiyan/genql"
)

// Compositionality: a query over a named intermediate result (CTE, derived table, CTE chain, CTE read twice or through a
// path selector) returns what the same outer query returns over the materialised inner result supplied as plain input;
// a row-scoped subquery contributes what it returns when run standalone on the row (after `<-`, on the document).

func c07Enc(v any) string { b, _ := json.Marshal(v); return string(b) }
func c07Run(doc map[string]any, q string) (res []any, err error) {
	defer func() {
		if p := recover(); p != nil {
			err = fmt.Errorf("PANIC %v", p)
		}
	}()
	qq, err := genql.New(doc, q)
	if err != nil {
		return nil, err
	}
	return qq.Exec()
}
func c07Clone(v any) any {
	if s, ok := v.([]any); ok && len(s) == 0 {
		return []any{}
	}
	var o any
	json.Unmarshal([]byte(c07Enc(v)), &o)
	return o
}
func TestC07(t *testing.T) {
	var tables [][]any
	as := []float64{1, 2, 3}
	bs := []string{"x", "y"}
	var rows []any
	for _, a := range as {
		for _, b := range bs {
			rows = append(rows, map[string]any{"a": a, "b": b})
		}
	}
	tables = append(tables, []any{})
	for i := range rows {
		tables = append(tables, []any{rows[i]})
		for j := range rows {
			tables = append(tables, []any{rows[i], rows[j]})
			for k := range rows {
				if (i+j+k)%4 == 0 {
					tables = append(tables, []any{rows[i], rows[j], rows[k]})
				}
			}
		}
	}
	inners := []string{"SELECT a, b FROM t", "SELECT a, b FROM t WHERE a > 1", "SELECT a, b FROM t ORDER BY a DESC", "SELECT a + 1 AS a, b FROM t", "SELECT b, MAX(a) AS a FROM t GROUP BY b", "SELECT a, b FROM t LIMIT 2", "SELECT DISTINCT a, b FROM t"}
	outers := []string{"SELECT * FROM %s", "SELECT %sa FROM %s WHERE %sa >= 2", "SELECT %sb, COUNT(%sa) AS n FROM %s GROUP BY %sb", "SELECT %sa, %sb FROM %s ORDER BY %sb, %sa DESC", "SELECT %sa FROM %s LIMIT 1 OFFSET 1", "SELECT SUM(%sa) AS s FROM %s"}
	mk := func(tmpl, prefix, from string) string {
		out := tmpl
		out = strings.Replace(out, "FROM %s", "FROM "+from, 1)
		out = strings.ReplaceAll(out, "%s", prefix)
		return out
	}
	r := &result{Property: "C07", Name: "composed-equals-staged"}
	note := func(class, msg string) {
		r.violateClass(strings.ReplaceAll(strings.Fields(class)[0], " ", "-"), "%s: %s", class, msg)
	}
	total := 0
	for _, tbl := range tables {
		doc := map[string]any{"t": tbl}
		for _, in := range inners {
			inner, ierr := c07Run(c07Clone(doc).(map[string]any), in)
			if ierr != nil {
				note("inner error "+in, ierr.Error())
				continue
			}
			for oi, out := range outers {
				// CTE
				total++
				staged, serr := c07Run(map[string]any{"c": c07Clone(inner)}, mk(out, "", "c"))
				got, gerr := c07Run(c07Clone(doc).(map[string]any), "WITH c AS ("+in+") "+mk(out, "", "c"))
				if (serr != nil) != (gerr != nil) || (serr == nil && c07Enc(staged) != c07Enc(got)) {
					note(fmt.Sprintf("CTE o%d", oi), fmt.Sprintf("%s | %s t=%s\n   got %s (%v)\n   want %s (%v)", in, out, c07Enc(tbl), c07Enc(got), gerr, c07Enc(staged), serr))
				}
				// derived
				total++
				staged, serr = c07Run(map[string]any{"s": c07Clone(inner)}, mk(out, "q.", "s q"))
				got, gerr = c07Run(c07Clone(doc).(map[string]any), mk(out, "q.", "("+in+") q"))
				if (serr != nil) != (gerr != nil) || (serr == nil && c07Enc(staged) != c07Enc(got)) {
					note(fmt.Sprintf("derived o%d", oi), fmt.Sprintf("%s | %s t=%s\n   got %s (%v)\n   want %s (%v)", in, out, c07Enc(tbl), c07Enc(got), gerr, c07Enc(staged), serr))
				}
				// chain
				total++
				mid := "SELECT a, b FROM c1 WHERE a >= 1"
				st1, e1 := c07Run(map[string]any{"c1": c07Clone(inner)}, mid)
				if e1 == nil {
					staged, serr = c07Run(map[string]any{"c2": c07Clone(st1)}, mk(out, "", "c2"))
					got, gerr = c07Run(c07Clone(doc).(map[string]any), "WITH c1 AS ("+in+"), c2 AS ("+mid+") "+mk(out, "", "c2"))
					if (serr != nil) != (gerr != nil) || (serr == nil && c07Enc(staged) != c07Enc(got)) {
						note(fmt.Sprintf("chain o%d", oi), fmt.Sprintf("%s | %s t=%s\n   got %s (%v)\n   want %s (%v)", in, out, c07Enc(tbl), c07Enc(got), gerr, c07Enc(staged), serr))
					}
				}
			}
			// referenced twice
			total++
			st, serr := c07Run(map[string]any{"c": c07Clone(inner)}, "SELECT a FROM c UNION ALL SELECT a FROM c")
			got, gerr := c07Run(c07Clone(doc).(map[string]any), "WITH c AS ("+in+") SELECT a FROM c UNION ALL SELECT a FROM c")
			if (serr != nil) != (gerr != nil) || (serr == nil && c07Enc(st) != c07Enc(got)) {
				note("twice", fmt.Sprintf("%s t=%s\n   got %s (%v)\n   want %s (%v)", in, c07Enc(tbl), c07Enc(got), gerr, c07Enc(st), serr))
			}
			// read by the three branches of a UNION chain, and by a branch in parentheses that brings the WITH itself
			total++
			st, serr = c07Run(map[string]any{"c": c07Clone(inner)}, "SELECT a FROM c UNION ALL SELECT a FROM c UNION ALL SELECT a FROM c")
			got, gerr = c07Run(c07Clone(doc).(map[string]any), "WITH c AS ("+in+") SELECT a FROM c UNION ALL SELECT a FROM c UNION ALL SELECT a FROM c")
			if (serr != nil) != (gerr != nil) || (serr == nil && c07Enc(st) != c07Enc(got)) {
				note("three branches", fmt.Sprintf("%s t=%s\n   got %s (%v)\n   want %s (%v)", in, c07Enc(tbl), c07Enc(got), gerr, c07Enc(st), serr))
			}
			total++
			st, serr = c07Run(map[string]any{"c": c07Clone(inner), "t": c07Clone(doc["t"])}, "SELECT a FROM c UNION ALL SELECT a FROM t")
			got, gerr = c07Run(c07Clone(doc).(map[string]any), "(WITH c AS ("+in+") SELECT a FROM c) UNION ALL SELECT a FROM t")
			if (serr != nil) != (gerr != nil) || (serr == nil && c07Enc(st) != c07Enc(got)) {
				note("branch with its own WITH", fmt.Sprintf("%s t=%s\n   got %s (%v)\n   want %s (%v)", in, c07Enc(tbl), c07Enc(got), gerr, c07Enc(st), serr))
			}
			// path selector through the CTE
			total++
			st, serr = c07Run(map[string]any{"c": c07Clone(inner)}, "SELECT * FROM `c[(0:1)]`")
			got, gerr = c07Run(c07Clone(doc).(map[string]any), "WITH c AS ("+in+") SELECT * FROM `c[(0:1)]`")
			if (serr != nil) != (gerr != nil) || (serr == nil && c07Enc(st) != c07Enc(got)) {
				note("selector", fmt.Sprintf("%s t=%s\n   got %s (%v)\n   want %s (%v)", in, c07Enc(tbl), c07Enc(got), gerr, c07Enc(st), serr))
			}
		}
	}
	// subqueries
	var kdocs []map[string]any
	vals := [][]float64{{}, {1}, {2}, {1, 3}, {3, 1, 2}}
	for _, v1 := range vals {
		for _, v2 := range vals {
			mkk := func(vs []float64) []any {
				o := []any{}
				for _, v := range vs {
					o = append(o, map[string]any{"v": v})
				}
				return o
			}
			kdocs = append(kdocs, map[string]any{"t": []any{map[string]any{"id": 1.0, "k": mkk(v1)}, map[string]any{"id": 2.0, "k": mkk(v2)}}, "r": []any{map[string]any{"m": 1.0}, map[string]any{"m": 2.0}}})
		}
	}
	subs := []string{"SELECT v FROM k", "SELECT v FROM k WHERE v > 1", "SELECT MAX(v) AS mx FROM k", "SELECT v FROM k ORDER BY v DESC LIMIT 1"}
	for _, d := range kdocs {
		for _, sq := range subs {
			total++
			got, gerr := c07Run(c07Clone(d).(map[string]any), "SELECT id, ("+sq+") AS s FROM t")
			var want []any
			var werr error
			for _, r := range d["t"].([]any) {
				sub, err := c07Run(c07Clone(r).(map[string]any), sq)
				if err != nil {
					werr = err
					break
				}
				want = append(want, map[string]any{"id": r.(map[string]any)["id"], "s": sub})
			}
			if (werr != nil) != (gerr != nil) || (werr == nil && c07Enc(want) != c07Enc(got)) {
				note("select-list subquery", fmt.Sprintf("%s d=%s\n   got %s (%v)\n   want %s (%v)", sq, c07Enc(d), c07Enc(got), gerr, c07Enc(want), werr))
			}
		}
		// IN
		total++
		got, gerr := c07Run(c07Clone(d).(map[string]any), "SELECT id FROM t WHERE id IN (SELECT v FROM k)")
		var want []any
		for _, r := range d["t"].([]any) {
			rm := r.(map[string]any)
			in := false
			for _, e := range rm["k"].([]any) {
				if e.(map[string]any)["v"] == rm["id"] {
					in = true
				}
			}
			if in {
				want = append(want, map[string]any{"id": rm["id"]})
			}
		}
		if gerr != nil || c07Enc(want) != c07Enc(got) {
			if want == nil && len(got) == 0 && gerr == nil {
			} else {
				note("IN subquery", fmt.Sprintf("d=%s\n   got %s (%v)\n   want %s", c07Enc(d), c07Enc(got), gerr, c07Enc(want)))
			}
		}
		// EXISTS correlated
		total++
		got, gerr = c07Run(c07Clone(d).(map[string]any), "SELECT id FROM t WHERE EXISTS (SELECT v FROM k WHERE v > id)")
		want = nil
		for _, r := range d["t"].([]any) {
			rm := r.(map[string]any)
			ex := false
			for _, e := range rm["k"].([]any) {
				if e.(map[string]any)["v"].(float64) > rm["id"].(float64) {
					ex = true
				}
			}
			if ex {
				want = append(want, map[string]any{"id": rm["id"]})
			}
		}
		if gerr != nil || (c07Enc(want) != c07Enc(got) && !(want == nil && len(got) == 0)) {
			note("EXISTS correlated", fmt.Sprintf("d=%s\n   got %s (%v)\n   want %s", c07Enc(d), c07Enc(got), gerr, c07Enc(want)))
		}
		// EXISTS with a column of the nested rows that has the name of a column of the outer row (id): the nested one is meant;
		// the nested rows are the k rows renamed v -> id by a derived table... they are given directly: k2 = [{id: v}]
		total++
		{
			d2 := c07Clone(d).(map[string]any)
			for _, r := range d2["t"].([]any) {
				rm := r.(map[string]any)
				var k2 []any
				for _, e := range rm["k"].([]any) {
					k2 = append(k2, map[string]any{"id": e.(map[string]any)["v"]})
				}
				if k2 == nil {
					k2 = []any{}
				}
				rm["k2"] = k2
			}
			got, gerr = c07Run(c07Clone(d2).(map[string]any), "SELECT id FROM t WHERE EXISTS (SELECT id FROM k2 WHERE id = 2)")
			want = nil
			for _, r := range d2["t"].([]any) {
				rm := r.(map[string]any)
				ex := false
				for _, e := range rm["k2"].([]any) {
					if e.(map[string]any)["id"] == 2.0 {
						ex = true
					}
				}
				if ex {
					want = append(want, map[string]any{"id": rm["id"]})
				}
			}
			if gerr != nil || (c07Enc(want) != c07Enc(got) && !(want == nil && len(got) == 0)) {
				note("EXISTS with a shadowed column", fmt.Sprintf("d=%s\n   got %s (%v)\n   want %s", c07Enc(d2), c07Enc(got), gerr, c07Enc(want)))
			}
		}
		// root navigation
		total++
		got, gerr = c07Run(c07Clone(d).(map[string]any), "SELECT id, (SELECT m FROM `<-r` WHERE m > 1) AS s FROM t")
		sub, _ := c07Run(c07Clone(d).(map[string]any), "SELECT m FROM r WHERE m > 1")
		want = nil
		for _, r := range d["t"].([]any) {
			want = append(want, map[string]any{"id": r.(map[string]any)["id"], "s": sub})
		}
		if gerr != nil || c07Enc(want) != c07Enc(got) {
			note("root navigation", fmt.Sprintf("d=%s\n   got %s (%v)\n   want %s", c07Enc(d), c07Enc(got), gerr, c07Enc(want)))
		}
	}
	r.Cases = total
	r.Bound = fmt.Sprintf("%d tables of 0..3 rows over a in {1,2,3}, b in {x,y}; 7 inner queries (projection, filter, order, arithmetic, group/aggregate, limit, distinct) x 6 outer queries (star, filter, group/count, two-key order, window, sum) composed as CTE, derived table and two-stage CTE chain, plus a CTE read twice and three times (UNION ALL chains), a UNION branch in parentheses with a WITH of its own, and a CTE read through a slice selector; 25 documents with nested arrays x 4 subqueries in the select list, IN, correlated EXISTS, EXISTS over nested rows with a column named like an outer one, and `<-` navigation, each compared with the standalone run on the row / the document", len(tables))
	report(t, r)
}
