package bounded

import (
	"encoding/json"
	"fmt"
	"testing"

	"github.com/vedadiyan/genql"
)

// C06 (bounded): DISTINCT keeps the first occurrence of every distinct row, in order; A UNION ALL B = A then B; A UNION B
// = that concatenation de-duplicated; chains associate to the left; LIMIT applies to the combined rows. "Distinct" is decided
// by a SHA-256 of the printed row, whose injectivity no contract can state: all tables of up to 4 rows over values that
// print alike ({1, "1", 1.5, true, "true", NULL, "a b"}) are enumerated.
func TestC06(t *testing.T) {
	vals := []any{1.0, "1", 1.5, true, "true", nil, "a b"}
	n := 3
	if tier() == "thorough" {
		n = 4
	}
	key := func(v any) string { b, _ := json.Marshal(v); return fmt.Sprintf("%T:%s", v, b) }
	r := &result{Property: "C06", Name: "distinct-first-occurrence-and-union", Bound: fmt.Sprintf("all tables of 0..%d single-column rows over %v, each also with LIMIT/OFFSET windows (1,1), (2,1), (1,2) over the distinct rows; unions of every pair of such tables with <= 2 rows, chains of 3", n, vals)}
	var tables [][]any
	var gen func(prefix []any, k int)
	gen = func(prefix []any, k int) {
		tables = append(tables, append([]any{}, prefix...))
		if k == 0 {
			return
		}
		for _, v := range vals {
			gen(append(prefix, v), k-1)
		}
	}
	gen(nil, n)
	mk := func(vs []any) []any {
		rows := make([]any, len(vs))
		for i, v := range vs {
			rows[i] = map[string]any{"a": v}
		}
		return rows
	}
	run := func(doc map[string]any, q string) ([]string, error) {
		qq, err := genql.New(doc, q)
		if err != nil {
			return nil, err
		}
		rs, err := qq.Exec()
		if err != nil {
			return nil, err
		}
		var out []string
		for _, row := range rs {
			m, ok := row.(map[string]any)
			if !ok {
				return nil, fmt.Errorf("row %v is not an object", row)
			}
			out = append(out, key(m["a"]))
		}
		return out, nil
	}
	dedup := func(vs []any) []string {
		seen := map[string]bool{}
		var out []string
		for _, v := range vs {
			k := key(v)
			if !seen[k] {
				seen[k] = true
				out = append(out, k)
			}
		}
		return out
	}
	plainKeys := func(vs []any) []string {
		var out []string
		for _, v := range vs {
			out = append(out, key(v))
		}
		return out
	}
	for _, tbl := range tables {
		r.Cases++
		got, err := run(map[string]any{"t": mk(tbl)}, "SELECT DISTINCT a FROM t")
		want := dedup(tbl)
		if err != nil || fmt.Sprint(got) != fmt.Sprint(want) {
			r.violate("DISTINCT over %v: got %v (%v), want %v", tbl, got, err, want)
		}
		// a window applies to the de-duplicated rows
		for _, w := range [][2]int{{1, 1}, {2, 1}, {1, 2}} {
			r.Cases++
			got, err := run(map[string]any{"t": mk(tbl)}, fmt.Sprintf("SELECT DISTINCT a FROM t LIMIT %d OFFSET %d", w[0], w[1]))
			lo, hi := w[1], w[1]+w[0]
			if lo > len(want) {
				lo = len(want)
			}
			if hi > len(want) {
				hi = len(want)
			}
			if err != nil || fmt.Sprint(got) != fmt.Sprint(want[lo:hi]) {
				r.violateClass("distinct-window", "DISTINCT over %v LIMIT %d OFFSET %d: got %v (%v), want %v", tbl, w[0], w[1], got, err, want[lo:hi])
			}
		}
	}
	var small [][]any
	for _, tbl := range tables {
		if len(tbl) <= 2 {
			small = append(small, tbl)
		}
	}
	for _, a := range small {
		for _, b := range small {
			doc := map[string]any{"t": mk(a), "r": mk(b), "s": mk([]any{1.0, "x"})}
			both := append(append([]any{}, a...), b...)
			r.Cases++
			got, err := run(doc, "SELECT a FROM t UNION ALL SELECT a FROM r")
			if err != nil || fmt.Sprint(got) != fmt.Sprint(plainKeys(both)) {
				r.violate("%v UNION ALL %v: got %v (%v)", a, b, got, err)
				continue
			}
			got, err = run(doc, "SELECT a FROM t UNION SELECT a FROM r")
			if err != nil || fmt.Sprint(got) != fmt.Sprint(dedup(both)) {
				r.violate("%v UNION %v: got %v (%v), want %v", a, b, got, err, dedup(both))
				continue
			}
			three := append(append([]any{}, both...), 1.0, "x")
			got, err = run(doc, "SELECT a FROM t UNION ALL SELECT a FROM r UNION ALL SELECT a FROM s")
			if err != nil || fmt.Sprint(got) != fmt.Sprint(plainKeys(three)) {
				r.violate("chain ALL/ALL over %v, %v: got %v (%v)", a, b, got, err)
				continue
			}
			got, err = run(doc, "SELECT a FROM t UNION SELECT a FROM r UNION ALL SELECT a FROM s")
			wantMixed := append(dedup(both), key(1.0), key("x"))
			if err != nil || fmt.Sprint(got) != fmt.Sprint(wantMixed) {
				r.violate("chain UNION then UNION ALL over %v, %v: got %v (%v), want %v", a, b, got, err, wantMixed)
				continue
			}
			got, err = run(doc, "SELECT a FROM t UNION ALL SELECT a FROM r LIMIT 2")
			wantLim := plainKeys(both)
			if len(wantLim) > 2 {
				wantLim = wantLim[:2]
			}
			if err != nil || fmt.Sprint(got) != fmt.Sprint(wantLim) {
				r.violate("%v UNION ALL %v LIMIT 2: got %v (%v), want %v", a, b, got, err, wantLim)
			}
		}
	}
	report(t, r)
	testC06Ragged(t)
}

// DISTINCT * and UNION over rows that do not all have the same keys (documents are not tables): two rows are the same
// row only when they have the same keys with the same values; a key that is missing is not a key whose value is NULL.
func testC06Ragged(t *testing.T) {
	shapes := []map[string]any{{}, {"id": 1.0}, {"id": 1.0, "note": "n"}, {"id": 1.0, "note": nil}, {"note": "n"}, {"id": 2.0}}
	r := &result{Property: "C06", Name: "distinct-over-rows-with-different-keys", Bound: fmt.Sprintf("all sequences of 1..3 rows over %d row shapes (empty object, missing key, explicit NULL), DISTINCT * and UNION", len(shapes))}
	id := func(m map[string]any) string { b, _ := json.Marshal(m); return string(b) }
	var seqs [][]int
	var gen func(prefix []int, k int)
	gen = func(prefix []int, k int) {
		if len(prefix) > 0 {
			seqs = append(seqs, append([]int{}, prefix...))
		}
		if k == 0 {
			return
		}
		for i := range shapes {
			gen(append(prefix, i), k-1)
		}
	}
	gen(nil, 3)
	for _, seq := range seqs {
		rows := make([]any, len(seq))
		var want []string
		seen := map[string]bool{}
		for i, si := range seq {
			c := map[string]any{}
			for k, v := range shapes[si] {
				c[k] = v
			}
			rows[i] = c
			if !seen[id(c)] {
				seen[id(c)] = true
				want = append(want, id(c))
			}
		}
		for _, q := range []string{"SELECT DISTINCT * FROM t", "SELECT * FROM t UNION SELECT * FROM t"} {
			r.Cases++
			qq, err := genql.New(map[string]any{"t": rows}, q)
			if err != nil {
				r.violate("New(%s): %v", q, err)
				continue
			}
			rs, err := qq.Exec()
			if err != nil {
				r.violate("%s on %v: %v", q, rows, err)
				continue
			}
			var got []string
			for _, o := range rs {
				got = append(got, id(o.(map[string]any)))
			}
			if fmt.Sprint(got) != fmt.Sprint(want) {
				r.violate("%s on %v: %v, reference %v", q, rows, got, want)
			}
		}
	}
	report(t, r)
}
