package bounded

import (
	"encoding/json"
	"fmt"
	"reflect"
	"testing"

	"github.com/vedadiyan/genql"
)

// A FROM path that resolves to an array of arrays: the result has the same nesting, each inner result equals the same query
// run directly on that inner array, and the query over the mix=> flattened source returns the concatenation of the inner results.

func c08Run(doc map[string]any, q string) (res []any, err error) {
	defer func() {
		if p := recover(); p != nil {
			err = fmt.Errorf("panic: %v", p)
		}
	}()
	qq, err := genql.New(doc, q)
	if err != nil {
		return nil, err
	}
	return qq.Exec()
}

// c08Direct evaluates the query on every innermost array of rows and rebuilds the nesting.
func c08Direct(src any, tmpl string) (any, error) {
	arr, ok := src.([]any)
	if !ok {
		return nil, fmt.Errorf("not an array")
	}
	nested := false
	for _, e := range arr {
		if _, isArr := e.([]any); isArr {
			nested = true
		}
	}
	if !nested {
		rs, err := c08Run(map[string]any{"s": arr}, fmt.Sprintf(tmpl, "s"))
		if err != nil {
			return nil, err
		}
		if rs == nil {
			rs = []any{}
		}
		return rs, nil
	}
	out := make([]any, 0)
	for _, e := range arr {
		r, err := c08Direct(e, tmpl)
		if err != nil {
			return nil, err
		}
		out = append(out, r)
	}
	return out, nil
}

func c08Flatten(v any) []any {
	out := make([]any, 0)
	for _, e := range v.([]any) {
		if a, ok := e.([]any); ok {
			out = append(out, c08Flatten(a)...)
		} else {
			out = append(out, e)
		}
	}
	return out
}

func c08Norm(v any) any {
	b, _ := json.Marshal(v)
	var o any
	json.Unmarshal(b, &o)
	return o
}

func TestC08(t *testing.T) {
	row := func(id, v float64) any { return map[string]any{"id": id, "v": v, "k": []any{map[string]any{"w": v}}} }
	sources := []any{
		[]any{[]any{row(1, 7), row(2, 3)}, []any{}, []any{row(3, 9)}},
		[]any{[]any{row(1, 1)}, []any{row(2, 8), row(3, 6), row(4, 2)}},
		[]any{[]any{[]any{row(1, 7)}, []any{}}, []any{[]any{row(2, 9), row(3, 1)}}},
		[]any{[]any{}, []any{}},
		[]any{[]any{[]any{}}, []any{[]any{row(5, 6)}}},
	}
	tmpls := []string{
		"SELECT id FROM `%s` WHERE v > 5",
		"SELECT id, v + 1 AS w FROM `%s`",
		"SELECT * FROM `%s` WHERE v <= 7",
		"SELECT id AS k FROM `%s` WHERE v > 100",
		"SELECT id, (SELECT w FROM k) AS s FROM `%s` WHERE v > 2",
	}
	r := &result{Property: "C08", Name: "nested-from-equals-direct-runs-and-mix-concatenates",
		Bound: fmt.Sprintf("%d sources (arrays of arrays of depth 2 and 3, with empty inner arrays) x %d queries (filter, projection, arithmetic, star, no match, row-scoped subquery)", len(sources), len(tmpls))}
	for si, src := range sources {
		for _, tmpl := range tmpls {
			r.Cases++
			doc := map[string]any{"g": src}
			got, err := c08Run(doc, fmt.Sprintf(tmpl, "g"))
			want, werr := c08Direct(src, tmpl)
			if err != nil || werr != nil {
				r.violateClass("error", "source %d, %s: nested run %v, direct runs %v", si, tmpl, err, werr)
				continue
			}
			if !reflect.DeepEqual(c08Norm(got), c08Norm(want)) {
				r.violateClass("nesting", "source %d, %s: got %s, want %s", si, tmpl, c07Enc(got), c07Enc(want))
				continue
			}
			r.Cases++
			mixed, err := c08Run(doc, fmt.Sprintf(tmpl, "mix=>g"))
			if err != nil {
				r.violateClass("error", "source %d, %s over mix=>: %v", si, tmpl, err)
				continue
			}
			flat := c08Flatten(want)
			if mixed == nil {
				mixed = []any{}
			}
			if !reflect.DeepEqual(c08Norm(mixed), c08Norm(flat)) {
				r.violateClass("mix", "source %d, %s over mix=>: got %s, want the concatenation of the inner results %s", si, tmpl, c07Enc(mixed), c07Enc(flat))
			}
			// the same through a path that needs a keep=> step to stay an array of arrays: `g[keep=>(0:end)]` is g itself
			r.Cases++
			kept, err := c08Run(doc, fmt.Sprintf(tmpl, "mix=>g[keep=>(0:end)]"))
			if err != nil {
				r.violateClass("error", "source %d, %s over mix=>g[keep=>(0:end)]: %v", si, tmpl, err)
				continue
			}
			if kept == nil {
				kept = []any{}
			}
			if !reflect.DeepEqual(c08Norm(kept), c08Norm(flat)) {
				r.violateClass("mix", "source %d, %s over mix=>g[keep=>(0:end)]: got %s, want the concatenation of the inner results %s", si, tmpl, c07Enc(kept), c07Enc(flat))
			}
		}
	}
	report(t, r)
}
