package bounded

import (
	"encoding/json"
	"fmt"
	"sort"
	"testing"

	"github.com/vedadiyan/genql"
)

// plain reports the first non-JSON value (or `<-` key) found in v.
func plain(v any, path string) string {
	switch x := v.(type) {
	case nil, bool, float64, string, int, int64, float32:
		return ""
	case []any:
		for i, e := range x {
			if p := plain(e, fmt.Sprintf("%s[%d]", path, i)); p != "" {
				return p
			}
		}
		return ""
	case []string:
		return ""
	case map[string]any:
		for k, e := range x {
			if k == "<-" {
				return path + ": navigation key `<-` in the result"
			}
			if p := plain(e, path+"."+k); p != "" {
				return p
			}
		}
		return ""
	}
	return fmt.Sprintf("%s: %T is not plain data", path, v)
}

func TestC12(t *testing.T) {
	mkdoc := func() map[string]any {
		var d map[string]any
		json.Unmarshal([]byte(`{"t":[{"id":1,"a":3,"g":"x","k":[{"v":1},{"v":5}]},{"id":2,"a":1,"g":"y","k":[{"v":2}]},{"id":3,"a":2,"g":"x","k":[]},{"id":4,"a":3,"g":"z","k":[{"v":9}]}],
		 "r":[{"m":1,"w":"p"},{"m":3,"w":"q"},{"m":3,"w":"r"}],
		 "n":[[{"a":1,"k":[{"v":1}]},{"a":4,"k":[]}],[{"a":2,"k":[{"v":3}]}]]}`), &d)
		return d
	}
	genql.RegisterFunction("zzslow", func(_ *genql.Query, _ map[string]any, _ *genql.FunctionOptions, args []any) (any, error) {
		return args[0], nil
	})
	type qc struct {
		q        string
		multiset bool
	}
	queries := []qc{
		{"SELECT id, a + 1 AS b, 'lit' AS c, a > 1 AS d FROM t WHERE a >= 1", false},
		{"SELECT * FROM t WHERE a IN (1, 3)", false},
		{"SELECT id, -a AS n, ~a AS m FROM t", false},
		{"SELECT g, COUNT(id) AS c, SUM(a) AS s FROM t GROUP BY g", false},
		{"SELECT DISTINCT g FROM t ORDER BY g DESC", false},
		{"SELECT id, (SELECT v FROM k LIMIT 1) AS q FROM t", false},
		{"SELECT id, (SELECT v FROM k LIMIT 1) AS q, * FROM t", false},
		{"WITH c AS (SELECT id, a FROM t WHERE a > 1) SELECT * FROM c", false},
		{"WITH c AS (SELECT id FROM t) SELECT * FROM dual", false},
		{"SELECT x.id, y.w FROM t x JOIN r y ON x.a = y.m", true},
		{"SELECT x.id, y.w FROM t x LEFT JOIN r y ON x.a < y.m", true},
		{"SELECT id, ASYNC.ZZSLOW(a) AS s FROM t", false},
		{"SELECT id, SPIN.ZZSLOW(a) AS s FROM t", false},
		{"SELECT id, ONCE.ZZSLOW(a) AS s FROM t", false},
		{"SELECT id, CASE WHEN a > 2 THEN 'big' ELSE 'small' END AS size FROM t", false},
		{"SELECT id, FIRST(k) AS f, ARRAY(a, id) AS arr, CONCAT(g, id) AS c FROM t", false},
		{"SELECT id FROM t WHERE EXISTS (SELECT v FROM k WHERE v > 1)", false},
		{"SELECT id FROM t UNION SELECT m FROM r", false},
		{"SELECT SETVAR('k', a), GETVAR('k') AS v FROM t", false},
		{"SELECT ('a', a + 1) AS x, (a, id) AS y FROM t", false},
		{"WITH c AS (SELECT id FROM t) SELECT c FROM dual", false},
		{"SELECT a, (SELECT v FROM k) AS s FROM n", false},
		{"SELECT a, ASYNC.ZZSLOW(a) AS s FROM n", false},
		{"SELECT x.id, y.m FROM (SELECT id, ASYNC.ZZSLOW(a) AS s, (SELECT v FROM k) AS q FROM t) x JOIN r y ON x.id = y.m", true},
		{"SELECT id, AWAIT((SELECT v FROM k)) AS s FROM t", false},
		{"SELECT q.id, q.s FROM (SELECT id, ASYNC.ZZSLOW(a) AS s FROM t) q", false},
		// the deferred work of the right side of a join (the left side is two lines up), and of both sides at once
		{"SELECT x.m, y.s FROM r x JOIN (SELECT id, ASYNC.ZZSLOW(a) AS s FROM t) y ON x.m = y.id", true},
		{"SELECT x.m, y.s FROM r x LEFT JOIN (SELECT id, ASYNC.ZZSLOW(a) AS s, (SELECT v FROM k) AS q FROM t) y ON x.m = y.id", true},
	}
	r := &result{Property: "C12", Name: "results-are-plain-and-repeatable", Bound: fmt.Sprintf("%d queries over the expression forms of every clause, each evaluated 8 times on equal inputs", len(queries))}
	for _, c := range queries {
		var first string
		for rep := 0; rep < 8; rep++ {
			r.Cases++
			q, err := genql.New(mkdoc(), c.q, genql.WithVars(map[string]any{}))
			if err != nil {
				r.violate("%q: New: %v", c.q, err)
				break
			}
			rs, err := q.Exec()
			if err != nil {
				r.violate("%q: Exec: %v", c.q, err)
				break
			}
			if p := plain(rs, "result"); p != "" {
				r.violate("%q: %s", c.q, p)
				break
			}
			b, err := json.Marshal(rs)
			if err != nil {
				r.violate("%q: result does not marshal: %v", c.q, err)
				break
			}
			s := string(b)
			if c.multiset {
				var rows []string
				for _, row := range rs {
					rb, _ := json.Marshal(row)
					rows = append(rows, string(rb))
				}
				sort.Strings(rows)
				s = fmt.Sprint(rows)
			}
			if rep == 0 {
				first = s
			} else if s != first {
				r.violate("%q: run %d differs from run 0: %.200s vs %.200s", c.q, rep, s, first)
				break
			}
		}
	}
	report(t, r)
	// repeated evaluation on grouping keys of mixed Go numeric types: the same partition on every run
	mixedKeysPartition(t, "C12")
}
