package bounded

import (
	"encoding/json"
	"fmt"
	"testing"

	"github.com/vedadiyan/genql"
)

// C11 (bounded): the caller's document is deep-equal before and after New + Exec, for a family of queries that exercises
// every site at which the engine touches rows (comparisons, subqueries, EXISTS, CTEs, joins, ORDER BY, aggregates, DISTINCT,
// nested arrays), with and without Wrapped, and with a failure injected at every invocation index of a failing function.
func TestC11(t *testing.T) {
	mkdoc := func() map[string]any {
		var d map[string]any
		json.Unmarshal([]byte(`{"t":[{"id":1,"a":3,"g":"x","k":[{"v":1},{"v":5}]},{"id":2,"a":1,"g":"y","k":[{"v":2}]},{"id":3,"a":2,"g":"x","k":[]}],
		 "r":[{"m":1,"w":"p"},{"m":3,"w":"q"}], "n":[[{"a":1,"k":[{"v":1}]},{"a":4,"k":[]}],[{"a":2,"k":[{"v":3}]}]]}`), &d)
		return d
	}
	calls := 0
	failAt := 0
	genql.RegisterFunction("zzfail", func(*genql.Query, map[string]any, *genql.FunctionOptions, []any) (any, error) {
		calls++
		if failAt > 0 && calls == failAt {
			return nil, fmt.Errorf("injected failure")
		}
		return 1.0, nil
	})
	queries := []string{
		"SELECT id FROM t WHERE a > 1",
		"SELECT id, a + 1 AS b FROM t WHERE a IN (1, 3) ORDER BY a DESC",
		"SELECT g, COUNT(id) AS c FROM t GROUP BY g",
		"SELECT DISTINCT g FROM t",
		"SELECT id FROM t WHERE EXISTS (SELECT v FROM k WHERE v > 1)",
		"SELECT id, (SELECT v FROM k LIMIT 1) AS firstv FROM t",
		"SELECT id FROM t WHERE a IN (SELECT m FROM `<-r`)",
		"WITH c AS (SELECT id, a FROM t WHERE a > 1) SELECT id FROM c ORDER BY id DESC",
		"SELECT x.id, y.w FROM t x JOIN r y ON x.a = y.m",
		"SELECT x.id, y.w FROM t x LEFT JOIN r y ON x.a < y.m",
		"SELECT a FROM n WHERE a > 1",
		"SELECT id FROM t ORDER BY a LIMIT 2 OFFSET 1",
		"SELECT id FROM t UNION SELECT m FROM r",
		"SELECT a, (SELECT v FROM k) AS s FROM n",
		"SELECT a FROM n WHERE EXISTS (SELECT v FROM k WHERE v > 0)",
		"SELECT x.id, y.m FROM (SELECT id, (SELECT v FROM k) AS s FROM t) x JOIN r y ON x.id = y.m",
		"SELECT x.m, y.id FROM r x JOIN (SELECT id FROM t WHERE EXISTS (SELECT v FROM k)) y ON x.m = y.id",
		"SELECT id, AWAIT((SELECT v FROM k)) AS s FROM t",
		"SELECT id, (SELECT v FROM k) AS s, * FROM t",
		"SELECT DISTINCT * FROM t x JOIN (SELECT id, (SELECT v FROM k) AS s FROM t) y ON x.id = y.id",
		"SELECT id FROM t WHERE id IN (SELECT DISTINCT z FROM `<-t` z)",
		"SELECT id FROM t WHERE EXISTS (SELECT DISTINCT * FROM `<-t` z JOIN `<-r` w ON z.a = w.m)",
		"SELECT id, ZZFAIL() AS f FROM t WHERE a > 0",
		"SELECT id FROM t WHERE ZZFAIL() = a",
		"SELECT id FROM t WHERE a < 10 AND ZZFAIL() >= 1",
		"SELECT id FROM t WHERE a IN (1, ZZFAIL())",
		"SELECT id, (SELECT v FROM k LIMIT 1) AS q, ZZFAIL() AS f FROM t",
		"SELECT id FROM t WHERE EXISTS (SELECT v FROM k WHERE v > 1) AND ZZFAIL() = 1",
		"WITH c AS (SELECT id, ZZFAIL() AS f FROM t) SELECT id FROM c",
	}
	r := &result{Property: "C11", Name: "input-deep-equal-after-new-and-exec", Bound: fmt.Sprintf("%d queries x {plain, Wrapped} x failure injected at invocation 0 (none), 1, 2, 3 of the failing function, one 3-row document with nested arrays", len(queries))}
	for _, q := range queries {
		for _, wrapped := range []bool{false, true} {
			for k := 0; k <= 3; k++ {
				r.Cases++
				doc := mkdoc()
				before, _ := json.Marshal(doc)
				calls, failAt = 0, k
				var opts []genql.QueryOption
				qq := q
				if wrapped {
					opts = append(opts, genql.Wrapped())
					qq = wrapQuery(q)
				}
				failed := false
				func() {
					defer func() {
						if p := recover(); p != nil {
							r.violate("%q: panic %v", qq, p)
						}
					}()
					query, err := genql.New(doc, qq, opts...)
					if err != nil {
						failed = true
						return
					}
					if _, err := query.Exec(); err != nil {
						failed = true
					}
				}()
				after, err := json.Marshal(doc)
				if err != nil || string(after) != string(before) {
					class := "unclassified"
					if failed {
						// nothing is set on the caller's rows any more (the navigation entry goes on a copy), so a failed
						// query has no excuse either; the class only says on which way out the change was seen
						class = "input-changed-after-a-failed-query"
					}
					r.violateClass(class, "%q (wrapped=%v, failure at invocation %d, query failed=%v): input changed: marshal error %v; after = %.200s", qq, wrapped, k, failed, err, after)
				}
			}
		}
	}
	report(t, r)
}

// wrapQuery addresses the tables through root when the Wrapped option is used.
func wrapQuery(q string) string {
	out := q
	for _, tbl := range []string{" t", " r", " n"} {
		out = replaceTable(out, "FROM"+tbl, "FROM `root."+tbl[1:]+"`")
		out = replaceTable(out, "JOIN"+tbl, "JOIN `root."+tbl[1:]+"`")
	}
	return out
}

func replaceTable(s, old, new string) string {
	res := ""
	for {
		i := indexWord(s, old)
		if i < 0 {
			return res + s
		}
		res += s[:i] + new
		s = s[i+len(old):]
	}
}

func indexWord(s, w string) int {
	for i := 0; i+len(w) <= len(s); i++ {
		if s[i:i+len(w)] == w && (i+len(w) == len(s) || s[i+len(w)] == ' ' || s[i+len(w)] == ')') {
			return i
		}
	}
	return -1
}
