package bounded

import (
	"encoding/json"
	"fmt"
	"strings"
	"testing"

	"github.com/vedadiyan/genql"
)

// refRewrite: the reference meaning of PostgresEscapingDialect: outside quotes copy; '...' (with backslash escapes) and
// `...` copied byte for byte; "..." becomes `...`, \" inside it becomes ".
func refRewrite(s string) (string, bool) {
	var b strings.Builder
	i := 0
	for i < len(s) {
		c := s[i]
		switch c {
		case '\'':
			b.WriteByte(c)
			i++
			closed := false
			for i < len(s) && !closed {
				d := s[i]
				b.WriteByte(d)
				if d == '\\' {
					if i+1 == len(s) {
						return "", false
					}
					b.WriteByte(s[i+1])
					i += 2
					continue
				}
				if d == '\'' {
					closed = true
				}
				i++
			}
		case '`':
			b.WriteByte(c)
			i++
			closed := false
			for i < len(s) && !closed {
				d := s[i]
				b.WriteByte(d)
				if d == '`' {
					closed = true
				}
				i++
			}
		case '"':
			b.WriteByte('`')
			i++
			closed := false
			for i < len(s) && !closed {
				d := s[i]
				if d == '"' {
					b.WriteByte('`')
					closed = true
					i++
					continue
				}
				if d == '\\' {
					if i+1 == len(s) {
						return "", false
					}
					if s[i+1] == '"' {
						b.WriteByte('"')
						i += 2
						continue
					}
				}
				b.WriteByte(d)
				i++
			}
		default:
			b.WriteByte(c)
			i++
		}
	}
	return b.String(), true
}

// refArrays: IdiomaticArrays: every [ ... ] outside quotes becomes ARRAY( ... ); nil when brackets are unbalanced.
func refArrays(s string) (string, bool) {
	var b strings.Builder
	var hold byte
	depth := 0
	for i := 0; i < len(s); i++ {
		c := s[i]
		// a backslash escapes the next byte, except inside a backtick identifier, where it is a character of the name
		if c == '\\' && hold != '`' {
			b.WriteByte(c)
			if i+1 < len(s) {
				i++
				b.WriteByte(s[i])
			}
			continue
		}
		if c == '"' || c == '\'' || c == '`' {
			if hold == 0 {
				hold = c
			} else if hold == c {
				hold = 0
			}
			b.WriteByte(c)
			continue
		}
		if hold != 0 {
			b.WriteByte(c)
			continue
		}
		switch c {
		case '[':
			depth++
			b.WriteString("ARRAY(")
		case ']':
			if depth == 0 {
				return "", false
			}
			depth--
			b.WriteString(")")
		default:
			b.WriteByte(c)
		}
	}
	return b.String(), depth == 0
}

func TestC17(t *testing.T) {
	n := 5
	if tier() == "thorough" {
		n = 6
	}
	// (1) DoubleQuotesToBackTick against the reference, all strings up to length n
	alphabet := []string{"\"", "'", "`", "\\", "a", "\xc3", "["}
	r1 := &result{Property: "C17", Name: "double-quotes-to-backtick-equals-reference", Bound: fmt.Sprintf("all byte strings of length <= %d over %q", n, alphabet)}
	for _, s := range strs(alphabet, n) {
		r1.Cases++
		want, ok := refRewrite(s)
		got, err := genql.DoubleQuotesToBackTick(s)
		if ok != (err == nil) {
			r1.violate("%q: error mismatch: reference ok=%v, got err=%v", s, ok, err)
			continue
		}
		if ok && got != want {
			r1.violate("%q: got %q want %q", s, got, want)
		}
	}
	report(t, r1)
	// (2) FixIdiomaticArray against the reference (balanced inputs), all strings up to length n
	alphabet2 := []string{"[", "]", "'", "\"", "`", "1", ",", "\\"}
	r2 := &result{Property: "C17", Name: "idiomatic-arrays-equals-reference", Bound: fmt.Sprintf("all strings of length <= %d over %q whose brackets outside quotes are balanced", n, alphabet2)}
	for _, s := range strs(alphabet2, n) {
		want, ok := refArrays(s)
		if !ok {
			continue
		}
		r2.Cases++
		func() {
			defer func() {
				if p := recover(); p != nil {
					r2.violate("%q: panic %v", s, p)
				}
			}()
			got, err := genql.FixIdiomaticArray(s)
			if err != nil || got != want {
				r2.violate("%q: got %q (%v) want %q", s, got, err, want)
			}
		}()
	}
	report(t, r2)
	// (3) end to end: the double-quoted spelling under the option returns what the backtick spelling returns without it;
	// literal contents reach the engine untouched; Wrapped == passing {"root": input}
	r3 := &result{Property: "C17", Name: "options-preserve-meaning", Bound: "identifier/literal contents over a fixed list of 12 awkward strings x 4 query shapes; both dialect options together for 5 identifiers x 2 shapes; Wrapped() against an explicit root for 7 queries (flat, derived table, CTE, UNION, subquery, EXISTS, join)"}
	var doc map[string]any
	json.Unmarshal([]byte(`{"t":[{"name":"é","v":1,"a b":2,"x":"it's"},{"name":"a\"b","v":2,"a b":3,"x":"[1]"},{"name":"p[0]","v":3,"a b":4,"x":"\\"}]}`), &doc)
	lits := []string{"é", "a\"b", "p[0]", "it''s", "\\\\", "[1]", "`", "a b", "]", "[", "x", "\xe2\x82\xac"}
	for _, lit := range lits {
		for _, shape := range []string{
			"SELECT %[1]sv%[1]s FROM t WHERE %[1]sname%[1]s = '%[2]s'",
			"SELECT %[1]sa b%[1]s AS k FROM t WHERE x = '%[2]s'",
			"SELECT '%[2]s' AS c, %[1]sv%[1]s FROM t",
		} {
			r3.Cases++
			qDouble := fmt.Sprintf(shape, "\"", lit)
			qBack := fmt.Sprintf(shape, "`", lit)
			a, errA := run(doc, qDouble, genql.PostgresEscapingDialect())
			b, errB := run(doc, qBack)
			if (errA == nil) != (errB == nil) || a != b {
				r3.violate("%q under the option: %s (%v); backtick spelling: %s (%v)", qDouble, a, errA, b, errB)
			}
		}
		// brackets inside literals are left alone by IdiomaticArrays
		r3.Cases++
		q := fmt.Sprintf("SELECT '%s' AS c, [v, 1] AS arr FROM t", lit)
		q2 := fmt.Sprintf("SELECT '%s' AS c, ARRAY(v, 1) AS arr FROM t", lit)
		a, errA := run(doc, q, genql.IdomaticArrays())
		b, errB := run(doc, q2)
		if (errA == nil) != (errB == nil) || a != b {
			r3.violate("%q under IdiomaticArrays: %s (%v); ARRAY spelling: %s (%v)", q, a, errA, b, errB)
		}
	}
	// both options together: the identifier rewrite and the array rewrite compose, whatever the identifier contains
	// (an escaped quote changes the length of the text in front of a bracket)
	for _, id := range [][2]string{{"k", "k"}, {"x\\\"y", "x\"y"}, {"a b", "a b"}, {"p[0]", "p[0]"}, {"q\\\"\\\"r", "q\"\"r"}} {
		for _, shape := range [][2]string{
			{"SELECT v AS \"%s\", [v, [1, 2]] AS arr FROM t", "SELECT v AS `%s`, ARRAY(v, ARRAY(1, 2)) AS arr FROM t"},
			{"SELECT [v, 1] AS arr, v AS \"%s\", [2] AS brr FROM t", "SELECT ARRAY(v, 1) AS arr, v AS `%s`, ARRAY(2) AS brr FROM t"},
		} {
			r3.Cases++
			qBoth := fmt.Sprintf(shape[0], id[0])
			qPlain := fmt.Sprintf(shape[1], id[1])
			a, errA := run(doc, qBoth, genql.PostgresEscapingDialect(), genql.IdomaticArrays())
			b, errB := run(doc, qPlain)
			if (errA == nil) != (errB == nil) || a != b {
				r3.violate("%q under both options: %s (%v); plain spelling %q: %s (%v)", qBoth, a, errA, qPlain, b, errB)
			}
		}
	}
	// Wrapped() == passing {"root": input}, for flat queries and for every kind of nested query
	for _, q := range []string{
		"SELECT v FROM `root.t` WHERE v > 1",
		"SELECT q.v FROM (SELECT v, name FROM `root.t` WHERE v > 1) q",
		"WITH big AS (SELECT v FROM `root.t` WHERE v >= 2) SELECT v FROM big",
		"SELECT v FROM `root.t` WHERE v = 1 UNION ALL SELECT v FROM `root.t` WHERE v = 3",
		"SELECT v, (SELECT name FROM `<-root.t` WHERE v = 1) AS s FROM `root.t`",
		"SELECT v FROM `root.t` WHERE EXISTS (SELECT name FROM `<-root.t` WHERE v > 2)",
		"SELECT x.v, y.v AS w FROM `root.t` x JOIN `root.t` y ON x.v = y.v ORDER BY v",
	} {
		r3.Cases++
		a, errA := run(doc, q, genql.Wrapped())
		b, errB := run(map[string]any{"root": doc}, q)
		if errA != nil || errB != nil || a != b {
			r3.violateClass("wrapped", "%q with Wrapped(): %s (%v); with an explicit root: %s (%v)", q, a, errA, b, errB)
		}
	}
	report(t, r3)
}

func run(doc map[string]any, q string, opts ...genql.QueryOption) (string, error) {
	qq, err := genql.New(doc, q, opts...)
	if err != nil {
		return "", err
	}
	rs, err := qq.Exec()
	if err != nil {
		return "", err
	}
	b, _ := json.Marshal(rs)
	return string(b), nil
}
