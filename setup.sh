#!/bin/bash
# Builds the verification condition generator from the sources in /verif/tool (dependencies vendored). Offline.
set -e
cd "$(dirname "$0")/tool"
export GOPROXY=off GOSUMDB=off GOTOOLCHAIN=local GOFLAGS=-mod=vendor
mkdir -p ../bin
go build -o ../bin/govc ./cmd/govc
echo "built $(readlink -f ../bin/govc)"
