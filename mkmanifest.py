#!/usr/bin/env python3
# Regenerates MANIFEST.json from claims.json (per-property text) so that the file is always schema-valid.
import json, subprocess, sys
claims = json.load(open('/verif/claims.json'))
props = [json.loads(l)['id'] for l in open('/verif/properties.jsonl')]
hooks = subprocess.run(['git','-C','/repo','log','--format=%H %s'],capture_output=True,text=True).stdout.splitlines()
hook_commits = [l.split()[0] for l in hooks if l.split(' ',1)[1].startswith('verif:')]
m = {
 "version": 1,
 "setup_cmd": "./setup.sh",
 "hooks": {
  "guard": "verif",
  "enable": "go build tag: -tags=verif (the guarded files are comment-only contract files, contracts_verif.go in each package; govc loads /repo with -tags=verif)",
  "baseline_off_cmd": "cd /repo && GOFLAGS=-mod=mod GOPROXY=off GOSUMDB=off go test -json -vet=off -count=1 -timeout 25m ./...",
  "source_commits": hook_commits,
  "add_only": True
 },
 "engines": [{"name": "govc", "path": "/verif/tool/cmd/govc", "serves_properties": sorted(claims['checks'].keys()),
   "kind_free_text": "verification-condition generator over go/ssa of the real code (contracts in //@ comment files behind the verif tag), obligations discharged by z3 5.1 / z3 4.8 / cvc5 1.0; refutations replayed on the real functions with go test -overlay"}],
 "checks": [],
 "not_applicable": [],
 "notes": claims.get('notes','')
}
for p in props:
    if p in claims['checks']:
        c = claims['checks'][p]
        m['checks'].append({
          "property_id": p,
          "quick_cmd": f"./check.sh {p} quick",
          "thorough_cmd": f"./check.sh {p} thorough",
          "evidence_file": f"/verif/evidence/{p}.json",
          "replay_cmd_template": "./check.sh --replay {path}",
          "engine": "govc",
          "level_claimed": {"category": c['category'], "text": c['text'], "design_ref": c.get('design_ref','DESIGN.md section 5 '+p)},
          "level_note": c['note'],
          "technique": c.get('technique', "contract-based deductive verification: weakest-precondition style VCs generated from go/ssa of the real functions against //@ contracts, discharged by SMT (z3, cvc5)")
        })
    else:
        m['not_applicable'].append({"property_id": p, "reason": claims['not_applicable'].get(p, "contracts for this property are not finished; a property is claimed only when its obligations are generated and discharged (DESIGN.md section 7)")})
json.dump(m, open('/verif/MANIFEST.json','w'), indent=1)
print("checks:", [c['property_id'] for c in m['checks']])
